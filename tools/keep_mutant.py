#!/usr/bin/env python3
"""tools/keep_mutant.py <name> <property> <src dir> <caught_by> <needs> [<note>]  -> seeded/<name>/"""
import json, os, shutil, subprocess, sys
name, prop, src, caught_by, needs = sys.argv[1:6]
note = sys.argv[6] if len(sys.argv) > 6 else ""
dst = os.path.join("/verif/seeded", name)
os.makedirs(dst, exist_ok=True)
for f in ("patch.diff", "demo.py", "notes.md"):
    if os.path.exists(os.path.join(src, f)):
        shutil.copy(os.path.join(src, f), os.path.join(dst, f))
log = "/tmp/mutlog/%s.log" % name
ran = open(log).read() if os.path.exists(log) else ""
head = subprocess.run(["git", "-C", "/repo", "rev-parse", "--short", "HEAD"], capture_output=True, text=True).stdout.strip()
meta = {"name": name, "breaks_property": prop, "needs_to_manifest": needs,
        "caught_by": caught_by.split(",") if caught_by else [], "note": note,
        "patch_applies_to_repo_commit": head,
        "verified": "tools/verify_mutant.sh: demo passes on the clean tree, fails with the patch; library compiles; the listed test files pass with the patch",
        "what_i_ran": ran[-3000:]}
json.dump(meta, open(os.path.join(dst, "meta.json"), "w"), indent=1)
print("kept", dst)
