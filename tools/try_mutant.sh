#!/bin/sh
# tools/try_mutant.sh <patch.diff> <tier> <Cxx> [Cyy ...]
# Applies the patch to a scratch worktree of /repo's HEAD (outside /repo and /verif), runs the given checks
# against it (VERIF_REPO), prints one line per check, removes the worktree.  Exit 0 iff at least one check
# reported a VIOLATION.
patch=$(readlink -f "$1"); tier=$2; shift 2
wt=$(mktemp -d /tmp/mutrun.XXXXXX)
git -C /repo worktree add -f --detach "$wt" HEAD -q || exit 3
if ! git -C "$wt" apply "$patch" 2>/dev/null && ! git -C "$wt" apply -3 "$patch"; then echo "PATCH DOES NOT APPLY"; git -C /repo worktree remove --force "$wt"; exit 3; fi
caught=1
cd /verif
for c in "$@"; do
  out=$(VERIF_REPO="$wt" VERIF_OUT="$wt/_verif_out" timeout 1500 ./run_check.py "$c" --tier "$tier" 2>&1); rc=$?
  nv=$(printf '%s\n' "$out" | grep -c '^VIOLATION')
  first=$(printf '%s\n' "$out" | grep -A1 '^VIOLATION' | grep 'what:' | head -1 | cut -c1-220)
  echo "$c rc=$rc violations=$nv $first"
  [ "$rc" = "2" ] && printf '%s\n' "$out" | grep -i "harness" | head -3
  [ "$nv" -gt 0 ] && caught=0
done
git -C /repo worktree remove --force "$wt"
rm -rf "$wt"
exit $caught
