#!/bin/sh
# tools/run_seeded.sh [tier]: runs every seeded change against the check(s) of the property it breaks
# (scratch worktree, VERIF_REPO) and writes seeded/RESULTS.md
tier=${1:-quick}
out=/verif/seeded/RESULTS.md
echo "# Seeded changes vs checks (tier $tier, /repo $(git -C /repo rev-parse --short HEAD), $(date -u +%Y-%m-%dT%H:%MZ))" > $out
echo "" >> $out
echo "| change | breaks | check | result | first violation |" >> $out
echo "|---|---|---|---|---|" >> $out
for d in /verif/seeded/*/; do
  name=$(basename $d)
  [ -f "$d/meta.json" ] || continue
  prop=$(python3 -c "import json;print(json.load(open('$d/meta.json'))['breaks_property'])")
  res=$(/verif/tools/try_mutant.sh "$d/patch.diff" $tier $prop 2>&1 | grep "rc=" | head -1)
  nv=$(echo "$res" | sed -n 's/.*violations=\([0-9]*\).*/\1/p')
  first=$(echo "$res" | sed 's/.*what: //' | cut -c1-140 | tr '|' '/')
  if [ "${nv:-0}" -gt 0 ]; then verdict="caught ($nv signatures)"; else verdict="MISSED: $res"; first=""; fi
  echo "| $name | $prop | $prop | $verdict | $first |" >> $out
  echo "$name $verdict"
done
