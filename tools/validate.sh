#!/bin/sh
# validates MANIFEST.json and every evidence file against the schemas (needs python3-vt / jsonschema)
cd "$(dirname "$0")/.." && python3-vt - <<'PY'
import json, jsonschema, glob, sys
jsonschema.validate(json.load(open('MANIFEST.json')), json.load(open('/root/.vp/MANIFEST.schema.json')))
S = json.load(open('/root/.vp/EVIDENCE.schema.json'))
bad = 0
for f in sorted(glob.glob('evidence/*.json')):
    try:
        jsonschema.validate(json.load(open(f)), S)
    except Exception as e:
        bad += 1; print("INVALID", f, str(e)[:300])
print("validated", len(glob.glob('evidence/*.json')), "evidence files, bad:", bad)
sys.exit(1 if bad else 0)
PY
