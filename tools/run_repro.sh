#!/bin/sh
# tools/run_repro.sh <repo dir> <case> : runs conformance/repro_pool_real.py in its own session, output to a
# file, killed by process group afterwards (a hung pool leaves manager/worker processes behind)
out=$(mktemp /tmp/repro.XXXXXX)
setsid /venv/bin/python /verif/conformance/repro_pool_real.py "$1" "$2" > "$out" 2>&1 &
pid=$!
i=0
while kill -0 $pid 2>/dev/null && [ $i -lt 30 ]; do sleep 1; i=$((i+1)); done
kill -9 -- -$pid 2>/dev/null
grep -E "RESULT|call|Timeout|File .*own_proc_pools" "$out" | head -12
grep -q "RESULT" "$out" || echo "RESULT $2 HANG (watchdog)"
rm -f "$out"
