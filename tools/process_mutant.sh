#!/bin/sh
# tools/process_mutant.sh <name> <mutant dir> "<test files>" <tier> <checks...>  -> /tmp/mutlog/<name>.log
name=$1; dir=$2; tests=$3; tier=$4; shift 4
mkdir -p /tmp/mutlog
{
  echo "== $name ($dir)"
  /verif/tools/verify_mutant.sh "$dir" $tests
  echo "verify rc=$?"
  /verif/tools/try_mutant.sh "$dir/patch.diff" "$tier" "$@"
  echo "caught rc=$?   (0 = at least one check reported a violation)"
} > /tmp/mutlog/$name.log 2>&1
