#!/bin/sh
# tools/verify_mutant.sh <mutant dir with patch.diff + demo.py> <test files...>
# In a scratch worktree of /repo HEAD: demo without patch must pass, with patch must fail, the given test files
# must pass with the patch.  Prints a one-line verdict.  Demos run in their own session with a timeout.
dir=$(readlink -f "$1"); shift
wt=$(mktemp -d /tmp/mutver.XXXXXX)
git -C /repo worktree add -f --detach "$wt" HEAD -q || exit 3
run_demo() {
  log=$(mktemp /tmp/mutver.log.XXXXXX)
  mkdir -p "$wt/_mutants/v" && cp "$dir/demo.py" "$wt/_mutants/v/demo.py"   # demos may locate the library relative to themselves
  ( cd "$wt" && PYTHONPATH="$wt" setsid timeout -s KILL 120 /venv/bin/python "$wt/_mutants/v/demo.py" > "$log" 2>&1 ); rc=$?
  pkill -KILL -f "$wt" 2>/dev/null
  tail -2 "$log" | cut -c1-160 | sed 's/^/      /' ; rm -f "$log"
  return $rc
}
run_demo; clean=$?
if ! git -C "$wt" apply "$dir/patch.diff" 2>/dev/null && ! git -C "$wt" apply -3 "$dir/patch.diff"; then echo "VERDICT $dir: PATCH DOES NOT APPLY"; git -C /repo worktree remove --force "$wt"; exit 3; fi
( cd "$wt" && /venv/bin/python -c "import sys; sys.path.insert(0,'$wt'); import windpyutils, compileall; sys.exit(0 if compileall.compile_dir('$wt/windpyutils', quiet=1) else 1)" ) ; comp=$?
run_demo; mut=$?
tests=0
if [ $# -gt 0 ]; then ( cd "$wt" && timeout 1500 /venv/bin/python -m pytest -q -p no:cacheprovider "$@" > /tmp/mutver.tests.$$ 2>&1 ); tests=$?; tail -1 /tmp/mutver.tests.$$ | cut -c1-120 | sed 's/^/      /'; rm -f /tmp/mutver.tests.$$; fi
echo "VERDICT $dir: demo-clean rc=$clean demo-mutated rc=$mut compile rc=$comp tests rc=$tests"
git -C /repo worktree remove --force "$wt"; rm -rf "$wt"
[ $clean -eq 0 ] && [ $mut -ne 0 ] && [ $comp -eq 0 ] && [ $tests -eq 0 ]
