#!/usr/bin/env python3
"""Regenerates MANIFEST.json from the table below (claimed = a checks/<id>.py exists and is listed here)."""
import json, os
HERE = os.path.dirname(os.path.dirname(os.path.abspath(__file__)))
BASE = "cd /repo && /venv/bin/python -m pytest -ra -q -p no:cacheprovider --timeout=900 --continue-on-collection-errors"

SEQ_NOTE = ("Trusted: the reference model in checks/<id>.py (plain list/dict/set code), the canonical state key "
            "(all attributes of the object graph, identities numbered by first visit), CPython. Bounds (alphabet, "
            "capacity, depth) are stated in the evidence; nothing beyond them is claimed.")
A_NOTE = ("Trusted: the virtual threading/multiprocessing layer mc/vmp.py (textbook semantics, compared with the real primitives by "
          "conformance/primitives.py): queue hand-off synchronous unless a driver opts into delayed delivery, items pickled across processes, "
          "fork-like process start (start() itself a scheduling point), timers expire when nothing else can move or as a deviation; the scheduler and the "
          "happens-before state cache (mc/vsched.py; equal fingerprints = same Mazurkiewicz trace prefix). The real source file of "
          "/repo is executed unmodified. Bounds per driver (preemptions, environment deviations, caps) are in the evidence.")
A_TECH = "stateless model checking of the real source under a controlled scheduler: all schedules up to a preemption bound (unbounded for the small drivers), happens-before state cache"
CHECKS = {
 "C01": dict(engine="vsched", technique=A_TECH, ref="5/C01", note=A_NOTE,
             text="Every schedule (consumer, SendWorkThread, ReplaceWorkerThread, workers as forked copies) of 8 sharp drivers over the real own_proc_pools.py: "
                  "1-worker driver with unbounded preemptions, the others with <=1-2 (quick) / <=2-3 (thorough) preemptions, thorough adds the W x queue-bounds x n x chunk "
                  "x lazy/list x mode grid at <=2. Oracle per execution: values yielded per call == map(f, data) (order, multiplicity, chunk order for unordered), no "
                  "result chunk left in any queue, no thread died. Unsynchronised attributes are found by a vector-clock race detector and become scheduling points."),
 "C02": dict(engine="vsched", technique=A_TECH, ref="5/C02", note=A_NOTE,
             text="Same exploration, oracle = no deadlock / livelock: a state with no enabled thread while some thread is unfinished (or >5000 steps) is reported with who is "
                  "blocked where. Lazy inputs make every __next__ (items and the final StopIteration) a free yield point, so arbitrarily late exhaustion is in the 0-preemption "
                  "space; bounded results queues exercise run_event flow control; includes leaving the pool context (__exit__)."),
 "C03": dict(engine="vsched", technique=A_TECH, ref="5/C03", note=A_NOTE,
             text="Call histories of length 2-3 (imap / imap_unordered, empty calls in between, chunk sizes) on one FunctorPool and quota'd FactoryFunctorPool instances (quota 1-2, "
                  "1-2 workers) under all schedules within the bound; per-call output must equal the fresh-pool expectation, nothing leaks between calls, no starvation "
                  "(consumer blocked, all workers and the replace thread finished)."),
 "C04": dict(engine="vsched", technique=A_TECH, ref="5/C04", note=A_NOTE,
             text="Same executions plus fault runs (begin() raises in worker w; functor raises at item j; also with an exception that is not an Exception) and until_all_ready() "
                  "before / between / after calls and between the results of a running call: per-worker event log must match begin, begin-returned, item*, end exactly once each "
                  "in that order (also on faults), chunks per worker <= quota, until_all_ready() returns happens-after every begin (vector clocks), nothing left running after __exit__."),
 "C05": dict(engine="vsched", technique=A_TECH + "; spurious Empty of multiprocessing.Queue, full result pipe at process exit and early expiry of timed waits as bounded environment deviations", ref="5/C05", note=A_NOTE,
             text="All schedules within <=3 (quick) / <=4 preemptions and <=1 spurious Empty of the real pools.py / maps.py / workers.py (FunctorMap with 1-3 workers, chunk sizes, "
                  "empty and lazy input, None / falsy items, two and three consecutive calls; mul_p_map with 1-2 workers incl. consecutive calls on the shared class-level queues); oracle: result == map in order, "
                  "termination, queues empty afterwards, no process left."),
 "C14": dict(engine="vsched", technique=A_TECH + "; oracles evaluated on the happens-before trace (vector clocks)", ref="5/C14", note=A_NOTE + " Real files in /dev/shm; print+flush of a line modelled as one atomic write.",
             text="The real storage.py with Manager lists / Value / RLock virtual and real files: two writer processes + reader (process or parent) over ids {0,1,2} in sharp shapes (gaps, reversed, "
                  "same id twice, pre-sized index) under all schedules within <=2 (quick) / <=3 preemptions; reads must return IndexError (unless the store happened-before the read) or exactly "
                  "the stored text; exactly one of two stores per id succeeds; sequential arrival orders over ids {0..3}: len / is_contiguous / iteration / lookups after every writer, "
                  "flush() empties and resets (also for an object that had written before)."),
 "C18": dict(engine="xproc", technique="stateless model checking over real fork()ed processes: all interleavings of the announced file operations (2 processes), preemption-bounded (3+)",
             ref="5/C18", note="Trusted: the pipe-driven scheduler mc/xproc.py and the proxies installed by shadowing files.open / files.mmap (they delegate to the real file / mmap objects); the OS.",
             text="Real fork()ed processes sharing one opened RandomLineAccessFile / MemoryMappedRandomLineAccessFile / MapAccessFile (5 lines x 6 kB): every interleaving of open/close/seek/"
                  "readline of parent + 1 child (all), parent + 2 children (<=2 quick / <=3 preemptions), grandchildren of an idle and of a reading child, 3-read sequences (thorough); every read of every process must equal the reference line."),
 "C06": dict(engine="seqmc", technique="explicit-state exploration of the real object vs a nondeterministic ordered-dict reference (whole reachable graph per capacity)",
             text="Whole reachable state graph of the real LRUCache for capacities 1-3 (quick) / 1-4, keys {0..c}, 2 values, under the full MutableMapping menu, plus the whole graph for capacity 4 (quick) / 4-5 under the core of the menu (store, lookup, delete, in, pop, popitem, iteration, items: recency lists long enough for link surgery in the middle); full menu = (store, lookup, delete, in, len, "
                  "views, get, pop, popitem, clear, update with dicts and pair lists, setdefault, ==, two look-ups back to back, an iteration left open while look-ups / nested "
                  "iterations go on); a second cache alive all the time must stay untouched; reference = set of possible ordered dicts (latitude for `in`, popitem, view look-ups); every library call under a "
                  "deterministic step budget (termination); internal dict/list agreement and link walk after every transition.", ref="5/C06", note=SEQ_NOTE),
 "C07": dict(engine="seqmc", technique="explicit-state exploration of the real object vs a nondeterministic use-count reference (depth-bounded, state dedup with subsumption)",
             text="All operation sequences (same menu as C06, macro operations count as one step) on the real LFUCache to depth 8 quick / 9-10 thorough (capacities 1-2) and 3 quick / 4 thorough "
                  "(capacity 3) from an empty and a warm cache; reference key -> (value, count) sets "
                  "with latitude for `in` and view look-ups; oracle: latest value, single victim with minimal count, non-decreasing iteration order, views terminate and agree.", ref="5/C07", note=SEQ_NOTE),
 "C08": dict(engine="seqmc", technique="explicit-state exploration of the real object vs reference model (whole reachable graph, bounded size)",
             text="Every mutator applied in every reachable state (list size <= 5 quick / 7 thorough) of the real DoublyLinkedList in four payload modes "
                  "(distinct, all equal, uncomparable, nodes of another list), sources of extend incl. raising iterables and other DoublyLinkedLists, each followed by a full forward/backward link walk, len() and iteration against a list of node "
                  "identities; plus a recursion probe on a 64-element run of equal payloads. Exhaustive over that space; payload renaming is the only symmetry used.",
             ref="5/C08", note=SEQ_NOTE),
 "C09": dict(engine="seqmc", technique="explicit-state exploration of the real object vs builtin set/dict (all initialisers up to a length, whole reachable graph)",
             text="All initialisers over a 6-value mixed int/float alphabet (len <=2 quick / <=4 thorough; list, iterator, dict, pairs) and from each the whole reachable graph under the "
                  "full MutableSet / MutableMapping menu incl. set operators; after every step strict ascent, content, len, membership and lookup vs builtin set/dict; foreign-typed probes must "
                  "answer absent and leave the canonical state unchanged; sparse mode (look-ups only as operations), copy-constructed, big-int and edge-value (inf, 2**53+1) explorations, "
                  "decoy instances, nested iterations.", ref="5/C09", note=SEQ_NOTE),
 "C10": dict(engine="seqmc", technique="exhaustive input enumeration over a small span universe vs brute-force membership formulas",
             text="Every span list (3-point universe len<=3 quick; 4-point and longer thorough) through all constructor forms (incl. a SpanSet as the collection), every ordered pair of constructed contents x all 4x4 relation "
                  "pairs x 13 operators against the docstring definitions evaluated by brute force with harness-side relations; operands also obtained by copy() + relation "
                  "re-assignment and from tuples with force_no_dup_check.", ref="5/C10", note=SEQ_NOTE),
 "C11": dict(engine="seqmc", technique="exhaustive enumeration of file contents over a 4-character alphabet x variants x index sources + explicit-state exploration of read histories vs str.split",
             text="Every file content over {a, e-acute, LF, CR} of length <=4 (quick) / <=6 plus buffer-boundary and whitespace probe files, 8 file classes, index built / list / index file / every "
                  "sub-list and permutation of offsets (<=3); len, every index in [-n-2,n+1], slices, index iterables, full iterations; read histories (index, slice, two iterators, next, list, close()+open() under a live iteration) "
                  "to depth 3 (quick) / 5 by BFS with state dedup; reference content.split('\\n').", ref="5/C11", note=SEQ_NOTE),
 "C12": dict(engine="seqmc", technique="explicit-state exploration of edit histories on the real file objects vs a Python list (depth-bounded, state dedup)",
             text="All edit sequences (10 mutators, all indices in [-n-1,n], 3 strings) to depth 2-3 quick / 3-4 thorough from 66 source files x 4 variants (incl. a str-subclass line, a generator as extend argument, removal of a record whose source text is not canonical); after every step observation, len, "
                  "items, slices, dirty flag and source bytes vs a list model; in every distinct state save() with 5 line endings (bytes) and reopen.", ref="5/C12", note=SEQ_NOTE),
 "C13": dict(engine="seqmc", technique="exhaustive input enumeration (field values over small alphabets) + explicit-state exploration of record-file edit histories",
             text="All records of 39 field-type sequences x JSON/CSV/TSV over critical-character strings (len<=2 quick / <=4 thorough), ints, floats, JSON nestings: load(save(r))==r, one line, "
                  "read back through 4 file variants; all save-call histories of length <=3 vs a fresh module; mutable record file edit histories saved and reopened; record class shapes (derived classes, "
                  "init=False, defaults, slots, kw_only, cached_property) and str fields of up to 400000 characters.", ref="5/C13", note=SEQ_NOTE),
 "C15": dict(engine="seqmc", technique="exhaustive enumeration of arrival permutations x drain subsets and of put/clear histories vs reference",
             text="Buffer/PrintBuffer: every permutation of n<=5 (quick) / 7 serials x every subset of drain points, flush/clear histories, long runs (400 in order, 1500 reversed); CircularBuffer capacities 1-4, every put/clear "
                  "sequence to depth 8/10 with all index probes.", ref="5/C15", note=SEQ_NOTE),
 "C16": dict(engine="seqmc", technique="exhaustive input enumeration (interval sets on a grid, all insertion orders, all probes) vs linear scan",
             text="Every ordered sequence of <=3 (quick) / <=4 intervals on an integer and a halved grid incl. degenerate and inverted ones, and (<=2 / <=3 intervals) on a grid of integers around 10**12 and one of adjacent floats; construction must raise KeyError exactly when "
                  "invalid/overlapping; every probe on the half-step grid (resp. every grid point and its neighbours) vs linear scan; in, len, ascending, repeated and interleaved iteration; the caller's dict is "
                  "modified after construction.", ref="5/C16", note=SEQ_NOTE),
 "C17": dict(engine="seqmc", technique="exhaustive input enumeration (score vectors, keys, intervals) vs itertools brute force",
             text="All score vectors in {0..3}^n (n<=4 quick / more thorough) x 4 monotone keys x yield_key: output is a permutation of all index-ordered combinations in non-decreasing key order; "
                  "every interval [i_start,i_end) vs brute-force minimum (also over unorderable, unhashable elements; large scores 10**12).", ref="5/C17", note=SEQ_NOTE),
 "C19": dict(engine="seqmc", technique="exhaustive input enumeration (complete domain 1..3999; all sequences up to a length) vs independent references",
             text="Roman numerals over the complete domain; arg_sort, sub_seq, search_sub_seq, compare_pos_in_iterables over all sequences of a small alphabet up to a length; Batcher/BatcherIter "
                  "for all (n<=9, batch<=10) and shapes.", ref="5/C19", note=SEQ_NOTE),
 "C20": dict(engine="seqmc", technique="exhaustive enumeration of create/remove/flush/raise histories on the real TmpPool (incl. real manager and forked children) and FilePool",
             text="All histories to depth 5 (quick) / 8 for the single-process pool with 4 ways of leaving the context; multi_proc with a real Manager and forked children: all op->actor assignments "
                  "to depth 3/4; FilePool: all file subsets x modes x body op sequences x exits, handle and fd-count oracle; plus (engine A) all schedules of a child creating while the parent "
                  "creates / removes / flushes / leaves, and pools entered in a really forked child.", ref="5/C20",
             note=SEQ_NOTE + " Real multiprocessing.Manager and fork for the multi_proc part (histories, not schedules)."),
}
PENDING = {}

def main():
    props = [json.loads(l)["id"] for l in open(os.path.join(HERE, "properties.jsonl"))]
    checks = []
    for pid in props:
        if pid not in CHECKS: continue
        c = CHECKS[pid]
        checks.append({
            "property_id": pid,
            "quick_cmd": "./run_check.py %s --tier quick" % pid,
            "thorough_cmd": "./run_check.py %s --tier thorough" % pid,
            "evidence_file": "/verif/evidence/%s.json" % pid,
            "replay_cmd_template": "./run_check.py %s --replay {path}" % pid,
            "engine": c["engine"],
            "level_claimed": {"category": "model_checking", "text": c["text"], "design_ref": "DESIGN.md §" + c["ref"]},
            "level_note": c["note"],
            "technique": c["technique"],
        })
    na = [{"property_id": p, "reason": PENDING.get(p, "check not built yet in this session (planned: bounded exhaustive exploration, see DESIGN.md §5); not claimed until it exists")}
          for p in props if p not in CHECKS]
    m = {"version": 1,
         "setup_cmd": "mkdir -p evidence replays && /venv/bin/python -m compileall -q mc checks run_check.py >/dev/null 2>&1; true",
         "hooks": {"guard": "WINDPYUTILS_VERIF", "enable": "no source hooks: all interposition is from outside the repository (import substitution, subclass monitors, module-global shadowing); run_check.py sets WINDPYUTILS_VERIF=1 for uniformity",
                   "baseline_off_cmd": BASE, "source_commits": [], "add_only": True},
         "engines": [
            {"name": "seqmc", "path": "mc/seqmc.py", "serves_properties": [p for p in props if CHECKS.get(p, {}).get("engine") == "seqmc"],
             "kind_free_text": "explicit-state BFS over operation histories on the real object, lock-step reference model, canonical object-graph key"},
            {"name": "vsched", "path": "mc/vsched.py", "serves_properties": [p for p in props if CHECKS.get(p, {}).get("engine") == "vsched"],
             "kind_free_text": "stateless preemption-bounded exploration of the real parallel/*.py source over a virtual threading/multiprocessing layer under a controlled scheduler, happens-before state cache"},
            {"name": "xproc", "path": "mc/xproc.py", "serves_properties": [p for p in props if CHECKS.get(p, {}).get("engine") == "xproc"],
             "kind_free_text": "controlled scheduler over real forked processes (pipe-granted file operations)"},
         ],
         "checks": checks,
         "not_applicable": na,
         "notes": "See DESIGN.md. known_findings.json lists known/fixed findings; seeded/ holds property-breaking changes used to test the checks."}
    m["engines"] = [e for e in m["engines"] if e["serves_properties"]]
    json.dump(m, open(os.path.join(HERE, "MANIFEST.json"), "w"), indent=1)
    print("claimed:", [c["property_id"] for c in checks], "not claimed:", [n["property_id"] for n in na])

if __name__ == "__main__":
    main()
