#!/usr/bin/env python3
"""Regenerates MANIFEST.json from the table below (claimed = a checks/<id>.py exists and is listed here)."""
import json, os
HERE = os.path.dirname(os.path.dirname(os.path.abspath(__file__)))
BASE = "cd /repo && /venv/bin/python -m pytest -ra -q -p no:cacheprovider --timeout=900 --continue-on-collection-errors"

SEQ_NOTE = ("Trusted: the reference model in checks/<id>.py (plain list/dict/set code), the canonical state key "
            "(all attributes of the object graph, identities numbered by first visit), CPython. Bounds (alphabet, "
            "capacity, depth) are stated in the evidence; nothing beyond them is claimed.")
CHECKS = {
 "C08": dict(engine="seqmc", technique="explicit-state exploration of the real object vs reference model (whole reachable graph, bounded size)",
             text="Every mutator applied in every reachable state (list size <= 5 quick / 7 thorough) of the real DoublyLinkedList in three payload modes "
                  "(distinct, all equal, uncomparable), each followed by a full forward/backward link walk, len() and iteration against a list of node "
                  "identities; plus a recursion probe on a 64-element run of equal payloads. Exhaustive over that space; payload renaming is the only symmetry used.",
             ref="5/C08", note=SEQ_NOTE),
}
PENDING = {}

def main():
    props = [json.loads(l)["id"] for l in open(os.path.join(HERE, "properties.jsonl"))]
    checks = []
    for pid in props:
        if pid not in CHECKS: continue
        c = CHECKS[pid]
        checks.append({
            "property_id": pid,
            "quick_cmd": "./run_check.py %s --tier quick" % pid,
            "thorough_cmd": "./run_check.py %s --tier thorough" % pid,
            "evidence_file": "/verif/evidence/%s.json" % pid,
            "replay_cmd_template": "./run_check.py %s --replay {path}" % pid,
            "engine": c["engine"],
            "level_claimed": {"category": "model_checking", "text": c["text"], "design_ref": "DESIGN.md §" + c["ref"]},
            "level_note": c["note"],
            "technique": c["technique"],
        })
    na = [{"property_id": p, "reason": PENDING.get(p, "check not built yet in this session (planned: bounded exhaustive exploration, see DESIGN.md §5); not claimed until it exists")}
          for p in props if p not in CHECKS]
    m = {"version": 1,
         "setup_cmd": "mkdir -p evidence replays && /venv/bin/python -m compileall -q mc checks run_check.py >/dev/null 2>&1; true",
         "hooks": {"guard": "WINDPYUTILS_VERIF", "enable": "no source hooks: all interposition is from outside the repository (import substitution, subclass monitors, module-global shadowing); run_check.py sets WINDPYUTILS_VERIF=1 for uniformity",
                   "baseline_off_cmd": BASE, "source_commits": [], "add_only": True},
         "engines": [
            {"name": "seqmc", "path": "mc/seqmc.py", "serves_properties": [p for p in props if CHECKS.get(p, {}).get("engine") == "seqmc"],
             "kind_free_text": "explicit-state BFS over operation histories on the real object, lock-step reference model, canonical object-graph key"},
            {"name": "vsched", "path": "mc/vsched.py", "serves_properties": [p for p in props if CHECKS.get(p, {}).get("engine") == "vsched"],
             "kind_free_text": "stateless preemption-bounded exploration of the real parallel/*.py source over a virtual threading/multiprocessing layer under a controlled scheduler, happens-before state cache"},
            {"name": "xproc", "path": "mc/xproc.py", "serves_properties": [p for p in props if CHECKS.get(p, {}).get("engine") == "xproc"],
             "kind_free_text": "controlled scheduler over real forked processes (pipe-granted file operations)"},
         ],
         "checks": checks,
         "not_applicable": na,
         "notes": "See DESIGN.md. known_findings.json lists known/fixed findings; seeded/ holds property-breaking changes used to test the checks."}
    m["engines"] = [e for e in m["engines"] if e["serves_properties"]]
    json.dump(m, open(os.path.join(HERE, "MANIFEST.json"), "w"), indent=1)
    print("claimed:", [c["property_id"] for c in checks], "not claimed:", [n["property_id"] for n in na])

if __name__ == "__main__":
    main()
