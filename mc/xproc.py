"""Engine B: controlled scheduler over REAL forked processes (for properties about OS semantics: a forked
child shares the parent's open file description, hence its offset).

One execution: the controller forks a root process; the root builds the object under test, optionally
reads, forks its children; every process announces each file operation (open / seek / readline / close,
through proxies installed by shadowing `windpyutils.files.open` and `windpyutils.files.mmap`) on a shared
request pipe and blocks on its private grant pipe until the controller lets it go.  File operations never
block, so every waiting process is enabled and the choice-sequence explorer of engine A enumerates the
interleavings (cost = preemptions)."""
import os
import pickle
import select
import signal
import struct
import sys
import traceback

from .vsched import Explorer, ExecResult, ReplayDivergence, HarnessError

MAXP = 6


def _send(fd, obj):
    b = pickle.dumps(obj)
    os.write(fd, struct.pack("<I", len(b)) + b)      # < PIPE_BUF: atomic


def _recv(fd, timeout):
    r, _, _ = select.select([fd], [], [], timeout)
    if not r:
        return None
    h = b""
    while len(h) < 4:
        c = os.read(fd, 4 - len(h))
        if not c:
            return None
        h += c
    n = struct.unpack("<I", h)[0]
    b = b""
    while len(b) < n:
        c = os.read(fd, n - len(b))
        if not c:
            return None
        b += c
    return pickle.loads(b)


class ProcCtx:
    """lives inside the scheduled processes"""

    def __init__(self, req_w, grants):
        self.req_w = req_w
        self.grants = grants         # index -> (r, w)
        self.idx = None              # set once the process is scheduled

    def point(self, label):
        if self.idx is None:
            return
        _send(self.req_w, (self.idx, "op", label))
        g = os.read(self.grants[self.idx][0], 1)
        if g != b"g":
            os._exit(3)

    def done(self, payload):
        _send(self.req_w, (self.idx, "done", payload))


CTX = None


class FileProxy:
    def __init__(self, f, name):
        self._f = f
        self._n = name

    def seek(self, *a):
        CTX.point("seek")
        return self._f.seek(*a)

    def readline(self, *a):
        CTX.point("readline")
        return self._f.readline(*a)

    def close(self):
        CTX.point("close")
        return self._f.close()

    def fileno(self):
        return self._f.fileno()

    def __iter__(self):
        return iter(self._f)

    def __enter__(self):
        self._f.__enter__()
        return self

    def __exit__(self, *a):
        return self._f.__exit__(*a)

    def __getattr__(self, n):
        return getattr(self._f, n)


def shadow_open(path, *a, **kw):
    CTX.point("open")
    return FileProxy(open(path, *a, **kw), path)


class MmapProxy:
    def __init__(self, m):
        self._m = m

    def seek(self, *a):
        CTX.point("mm.seek")
        return self._m.seek(*a)

    def readline(self):
        CTX.point("mm.readline")
        return self._m.readline()

    def close(self):
        CTX.point("mm.close")
        return self._m.close()

    def __getattr__(self, n):
        return getattr(self._m, n)


class MmapModule:
    def __init__(self):
        import mmap as _m
        self._m = _m
        self.ACCESS_READ = _m.ACCESS_READ

    def mmap(self, *a, **kw):
        CTX.point("mmap")
        return MmapProxy(self._m.mmap(*a, **kw))

    def __getattr__(self, n):
        return getattr(self._m, n)


def install_shadows(files_module):
    files_module.open = shadow_open
    files_module.mmap = MmapModule()


def run_execution(scenario, prefix, timeout=20.0):
    """scenario(ctx) runs in the root process (it forks the children itself through ctx_fork()).
    Returns ExecResult with .value = {proc index: payload reported by done()}."""
    global CTX
    req_r, req_w = os.pipe()
    grants = {i: os.pipe() for i in range(MAXP)}
    pid = os.fork()
    if pid == 0:
        try:
            os.setpgid(0, 0)
            os.close(req_r)
            CTX = ProcCtx(req_w, grants)
            scenario(CTX)
            os._exit(0)
        except BaseException:   # noqa
            try:
                _send(req_w, (-1, "crash", traceback.format_exc()[-3000:]))
            finally:
                os._exit(2)
    os.close(req_w)
    try:
        try:
            os.setpgid(pid, pid)
        except OSError:
            pass
        prefix = list(prefix)
        choices, points, trace = [], [], []
        waiting = {}           # idx -> label
        done = {}
        started = {0}
        running = None
        labels = {}
        transitions = 0
        expect_children = 0
        while True:
            # collect announcements until every started process is waiting or done
            while len(waiting) + len(done) < len(started):
                m = _recv(req_r, timeout)
                if m is None:
                    raise HarnessError("scheduled process silent for %.0fs (waiting=%r done=%r started=%r trace=%r)" % (
                        timeout, waiting, sorted(done), sorted(started), trace[-6:]))
                idx, kind, payload = m
                if kind == "crash":
                    raise HarnessError("scheduled process crashed:\n" + payload)
                if kind == "op":
                    waiting[idx] = payload
                elif kind == "done":
                    done[idx] = payload
                elif kind == "forked":
                    started.update(payload)
            if not waiting:
                break
            order = sorted(waiting)
            run_en = running in waiting
            if run_en:
                order.remove(running)
                order.insert(0, running)
            if len(order) > 1:
                i = len(choices)
                if i < len(prefix):
                    c = prefix[i]
                    if c >= len(order):
                        raise ReplayDivergence("choice %d of %d at point %d" % (c, len(order), i))
                else:
                    c = 0
                choices.append(c)
                points.append((len(order), "p" if run_en else "f"))
                nxt = order[c]
            else:
                nxt = order[0]
            label = waiting.pop(nxt)
            trace.append("p%d %s" % (nxt, label))
            labels[label] = labels.get(label, 0) + 1
            transitions += 1
            running = nxt
            if label.startswith("fork:"):
                started.update(int(x) for x in label[5:].split(","))
            os.write(grants[nxt][1], b"g")
        os.waitpid(pid, 0)
    finally:
        try:
            os.killpg(pid, signal.SIGKILL)
        except OSError:
            pass
        try:
            os.waitpid(pid, os.WNOHANG)
        except OSError:
            pass
        os.close(req_r)
        for r_, w_ in grants.values():
            os.close(r_)
            os.close(w_)
    r = ExecResult()
    r.choices, r.points, r.trace = choices, points, trace
    r.outcome = "done"
    r.blocked, r.leftover_daemons, r.exceptions = [], [], []
    r.value = done
    r.user = {"out": done}
    r.steps = r.transitions = transitions
    r.new_states = 0
    r.racy_new = set()
    r.label_counts = labels
    r.n_tasks = len(started)
    r.diverge_msg = None
    r.tasks, r.queues = [], []
    return r


def ctx_fork(ctx, child_indices, child_main):
    """called in the root: one scheduled operation 'fork:<indices>', then forks the children; each child
    runs child_main(index) and exits.  Returns the child pids."""
    ctx.point("fork:" + ",".join(map(str, child_indices)))
    pids = []
    for ci in child_indices:
        p = os.fork()
        if p == 0:
            try:
                ctx.idx = ci
                child_main(ci)
                os._exit(0)
            except BaseException:   # noqa
                try:
                    _send(ctx.req_w, (-1, "crash", traceback.format_exc()[-3000:]))
                finally:
                    os._exit(2)
        pids.append(p)
    return pids


class XExplorer(Explorer):
    def __init__(self, scenario, check, pbound, observe=None, max_execs=None):
        super().__init__(None, check, pbound, 0, use_cache=False, observe=observe, max_execs=max_execs)
        self.scenario = scenario

    def run_one(self, prefix, record_trace=False, use_cache=None):
        r = run_execution(self.scenario, prefix)
        if len(r.choices) < len(prefix):
            raise ReplayDivergence("execution ended after %d choice points, prefix has %d" % (len(r.choices), len(prefix)))
        return r
