"""Virtual threading / multiprocessing layer for engine A, and the loader that executes the real
source files of /repo over it.  Semantics are the textbook ones; conformance/primitives.py compares
them, operation sequence by operation sequence, with the real modules."""
import builtins
import copy
import pickle as _pickle
import os
import queue as _queue
import sys
import types

from . import vsched
from .vsched import Op, VObj, cur, Abort, HarnessError

REPO = os.environ.get("VERIF_REPO", "/repo")


# ---------------------------------------------------------------------------------------------------
# primitives
# ---------------------------------------------------------------------------------------------------

def timed(s, label, obj, write, cond, timeout):
    """A blocking operation with an optional timeout; -> True if it timed out.  By default a timer expires only when
    nothing else in the system can move (the wait is as good as blocking).  As an environment deviation it expires
    EARLY: the operation is then performed whenever the scheduler picks it, and times out if it cannot succeed at that
    moment -- a slow machine, on which the others simply have not got there yet."""
    if timeout is None:
        return s.point(Op(label, obj, write, enabled=cond))
    if s.env_choice(2, "early-timeout"):
        op = Op(label, obj, write)
        op.early = cond
        return s.point(op)
    return s.point(Op(label, obj, write, enabled=cond, timeout=True))


class Event(VObj):
    kind = "Event"

    def __init__(self):
        super().__init__()
        self._flag = False

    def set(self):
        cur().point(Op("set", self, True))
        self._flag = True

    def clear(self):
        cur().point(Op("clear", self, True))
        self._flag = False

    def is_set(self):
        cur().point(Op("is_set", self, False))
        return self._flag

    def wait(self, timeout=None):
        timed(cur(), "wait", self, False, lambda: self._flag, timeout)
        return self._flag


class Lock(VObj):
    kind = "Lock"
    reentrant = False

    def __init__(self):
        super().__init__()
        self._owner = None
        self._count = 0

    def _free_for(self, t):
        return self._owner is None or (self.reentrant and self._owner is t)

    def acquire(self, block=True, timeout=None, blocking=None):
        if blocking is not None:
            block = blocking
        s = cur()
        t = s.current
        if not block:
            s.point(Op("try_acquire", self, True))
            if not self._free_for(t):
                return False
        else:
            if timeout is not None and timeout < 0:
                timeout = None
            to = timed(s, "acquire", self, True, lambda: self._free_for(t), timeout)
            if to:
                return False
        self._owner = t
        self._count += 1
        return True

    def release(self):
        s = cur()
        t = s.current
        if self._owner is None or (self.reentrant and self._owner is not t):
            raise RuntimeError("release of un-acquired lock") if not self.reentrant else AssertionError(
                "attempt to release recursive lock not owned by thread")
        s.point(Op("release", self, True))
        self._count -= 1
        if self._count == 0 or not self.reentrant:
            self._count = 0
            self._owner = None

    def locked(self):
        cur().point(Op("locked", self, False))
        return self._owner is not None

    def __enter__(self):
        self.acquire()
        return True

    def __exit__(self, *a):
        self.release()


class RLock(Lock):
    kind = "RLock"
    reentrant = True


class VQueue(VObj):
    """queue.Queue semantics (manager queues are proxies of exactly that); proc=True marks a
    multiprocessing.Queue, whose non-blocking get may spuriously report Empty (feeder thread)."""
    kind = "Queue"

    def __init__(self, maxsize=0, proc=False, manager=None):
        super().__init__(kind="PQueue" if proc else ("MQueue" if manager is not None else "Queue"))
        self._items = []
        self._maxsize = maxsize if maxsize and maxsize > 0 else 0
        self._proc = proc
        self._manager = manager
        self._closed = False
        self._putters = {}
        self._pending = {}          # putter task -> items handed to its feeder but not delivered yet
        cur().queues.append(self)

    def _full(self):
        # the bound of a multiprocessing.Queue counts items that were put and not yet got, delivered or not
        n = len(self._items) + sum(len(p) for p in self._pending.values())
        return self._maxsize > 0 and n >= self._maxsize

    def _check_open(self):
        if self._closed or (self._manager is not None and self._manager._shutdown):
            raise BrokenPipeError("manager of this queue has been shut down")

    def put(self, item, block=True, timeout=None):
        s = cur()
        if not block:
            s.point(Op("put_nowait", self, True))
            self._check_open()
            if self._full():
                raise _queue.Full()
        else:
            to = timed(s, "put", self, True, lambda: not self._full() or self._dead(), timeout)
            self._check_open()
            if to:
                raise _queue.Full()
        if self._proc or self._manager is not None:
            # items cross a process boundary pickled: the receiver gets an equal object, not the same one
            try:
                item = _pickle.loads(_pickle.dumps(item))
            except Exception:   # noqa -- harness objects that do not pickle stay as they are
                pass
        if self._proc:
            self._putters[id(item)] = (s.current, item)
            if s.user.get("delayed_put"):
                # multiprocessing.Queue.put only hands the item to the process's feeder thread, which writes it to the
                # pipe some time later: explored as an environment deviation (a feeder task delivers the item); later
                # puts of the same process queue up behind an undelivered one (the feeder keeps their order)
                me = s.current
                pend = self._pending.get(me)
                if pend is not None:
                    pend.append(item)
                    return
                if s.env_choice(2, "delayed-put"):
                    pend = self._pending[me] = [item]
                    q = self

                    def feeder():
                        while pend:
                            cur().point(Op("feeder.put", q, True))
                            q._items.append(pend.pop(0))
                        del q._pending[me]
                    s.spawn("QueueFeeder", feeder, daemon=True)
                    return
        self._items.append(item)

    def _unflushed_of(self, task):
        """items put by `task` that nobody has taken yet and that carry user data of unbounded size"""
        return [it for it in self._items if id(it) in self._putters and self._putters[id(it)][0] is task
                and big_item(it)]

    def _dead(self):
        return self._closed or (self._manager is not None and self._manager._shutdown)

    def get(self, block=True, timeout=None):
        s = cur()
        if not block:
            s.point(Op("get_nowait", self, True))
            self._check_open()
            if not self._items:
                raise _queue.Empty()
            if self._proc and s.env_choice(2, "spurious-empty"):
                raise _queue.Empty()
        else:
            to = timed(s, "get", self, True, lambda: bool(self._items) or self._dead(), timeout)
            self._check_open()
            if to:
                raise _queue.Empty()
        return self._items.pop(0)

    def put_nowait(self, item):
        return self.put(item, False)

    def get_nowait(self):
        return self.get(False)

    def qsize(self):
        cur().point(Op("qsize", self, False))
        self._check_open()
        return len(self._items)

    def empty(self):
        cur().point(Op("empty", self, False))
        self._check_open()
        return not self._items

    def full(self):
        cur().point(Op("full", self, False))
        self._check_open()
        return self._full()

    # multiprocessing.Queue extras
    def close(self):
        pass

    def join_thread(self):
        pass

    def cancel_join_thread(self):
        pass

    # queue.Queue extras
    def task_done(self):
        pass


def big_item(item):
    """does the item carry results of the user's function (whose size nothing bounds)?  Bookkeeping items
    (ids, None tokens) are small and never fill the queue's pipe."""
    return isinstance(item, tuple) and len(item) == 2 and isinstance(item[1], list) and len(item[1]) > 0


def flush_wait(task):
    """A process that has put items on a multiprocessing.Queue cannot exit before its feeder thread has
    written them to the pipe; when the pipe is full (results of arbitrary size) that means: before somebody
    reads them.  Explored as an environment deviation at process exit."""
    s = cur()
    for q in s.queues:
        if q._proc and task in q._pending:
            # the process joins its feeder thread at exit: undelivered items are delivered first
            s.point(Op("feeder-join", q, False, enabled=lambda q=q: task not in q._pending))
    for q in s.queues:
        if q._proc and q._unflushed_of(task):
            if s.env_choice(2, "pipe-full"):
                s.point(Op("flush-wait", q, False, enabled=lambda q=q: not q._unflushed_of(task)))


class Value(VObj):
    kind = "Value"

    def __init__(self, typecode_or_type="i", *args, lock=True):
        super().__init__()
        self._v = args[0] if args else 0
        self._lock = RLock()

    @property
    def value(self):
        cur().point(Op("value.get", self, False))
        return self._v

    @value.setter
    def value(self, v):
        cur().point(Op("value.set", self, True))
        self._v = v

    def get_lock(self):
        return self._lock


class VList(VObj):
    """manager.list(): every proxied method call is one atomic operation; iteration goes through
    __getitem__ (ListProxy exposes no __iter__)"""
    kind = "MList"

    def __init__(self, seq=(), manager=None):
        super().__init__()
        self._l = list(seq)
        self._manager = manager

    def _pt(self, label, write):
        cur().point(Op(label, self, write))
        if self._manager is not None and self._manager._shutdown:
            raise BrokenPipeError("manager of this list has been shut down")

    def append(self, x):
        self._pt("append", True)
        self._l.append(x)

    def extend(self, xs):
        xs = list(xs)
        self._pt("extend", True)
        self._l.extend(xs)

    def insert(self, i, x):
        self._pt("insert", True)
        self._l.insert(i, x)

    def pop(self, *a):
        self._pt("pop", True)
        return self._l.pop(*a)

    def remove(self, x):
        self._pt("remove", True)
        self._l.remove(x)

    def index(self, *a):
        self._pt("index", False)
        return self._l.index(*a)

    def count(self, x):
        self._pt("count", False)
        return self._l.count(x)

    def reverse(self):
        self._pt("reverse", True)
        self._l.reverse()

    def sort(self, **kw):
        self._pt("sort", True)
        self._l.sort(**kw)

    def __len__(self):
        self._pt("len", False)
        return len(self._l)

    def __getitem__(self, i):
        self._pt("getitem", False)
        r = self._l[i]
        return copy.copy(r) if isinstance(r, list) else r

    def __setitem__(self, i, v):
        if isinstance(i, slice):
            v = list(v)
        self._pt("setitem", True)
        self._l[i] = v

    def __delitem__(self, i):
        self._pt("delitem", True)
        del self._l[i]

    def __contains__(self, x):
        self._pt("contains", False)
        return x in self._l

    def __add__(self, other):
        self._pt("add", False)
        return self._l + list(other)

    def __repr__(self):
        return "VList(%r)" % (self._l,)


class Manager(VObj):
    kind = "Manager"

    def __init__(self):
        super().__init__()
        self._shutdown = False
        self._objs = []

    def start(self):
        pass

    def shutdown(self):
        cur().point(Op("shutdown", self, True))
        self._shutdown = True

    def __enter__(self):
        return self

    def __exit__(self, *a):
        self.shutdown()

    def Queue(self, maxsize=0):
        return VQueue(maxsize, manager=self)

    def list(self, seq=()):
        return VList(seq, manager=self)

    def Event(self):
        return Event()

    def Lock(self):
        return Lock()

    def RLock(self):
        return RLock()

    def Value(self, typecode, value, lock=True):
        return Value(typecode, value)


# ---------------------------------------------------------------------------------------------------
# threads and processes
# ---------------------------------------------------------------------------------------------------

class _Runnable:
    _is_process = False

    def __init__(self, group=None, target=None, name=None, args=(), kwargs=None, *, daemon=None):
        self._target = target
        self._args = tuple(args)
        self._kwargs = dict(kwargs or {})
        self._vtask = None
        self._vstarted = False
        self._vstart_obj = VObj(kind="runnable", hint=type(self).__name__)     # orders start() with is_alive() / exitcode
        self._daemonic = bool(daemon) if daemon is not None else False
        self._name = name or type(self).__name__

    @property
    def daemon(self):
        return self._daemonic

    @daemon.setter
    def daemon(self, v):
        self._daemonic = bool(v)

    @property
    def name(self):
        return self._name

    @name.setter
    def name(self, v):
        self._name = v

    def run(self):
        if self._target is not None:
            self._target(*self._args, **self._kwargs)

    def _vrole(self):
        return type(self).__name__

    def start(self):
        s = cur()
        if self._vstarted:
            raise (AssertionError("cannot start a process twice") if self._is_process
                   else RuntimeError("threads can only be started once"))
        # starting takes time (a fork): whatever the starter did just before -- e.g. publishing the object in a list --
        # is visible to the others while the object is not alive yet
        s.point(Op("start", self._vstart_obj, True))
        self._vstarted = True
        t = s.current
        # everything the parent did so far happens-before the child
        t.vc[t.idx] = t.vc.get(t.idx, 0) + 1
        if self._is_process:
            child = copy.deepcopy(self)      # fork(): private copy, virtual shared objects by reference
            s.user.setdefault("processes", []).append((self, child))
        else:
            child = self
        if self._is_process:
            def body():
                try:
                    child.run()
                finally:
                    if not s.aborting:
                        flush_wait(s.current)
        else:
            body = child.run
        task = s.spawn(self._vrole(), body, daemon=self._daemonic, is_process=self._is_process)
        self._vtask = task
        if child is not self:
            child._vtask = task
        t.vc[t.idx] = t.vc.get(t.idx, 0) + 1

    def join(self, timeout=None):
        if not self._vstarted:
            raise (AssertionError("can only join a started process") if self._is_process
                   else RuntimeError("cannot join thread before it is started"))
        task = self._vtask
        timed(cur(), "join", task.obj, False, lambda: task.state == "done", timeout)

    def is_alive(self):
        if not self._vstarted:
            cur().point(Op("is_alive", self._vstart_obj, False))
        if not self._vstarted:
            return False
        task = self._vtask
        cur().point(Op("is_alive", task.obj, False))
        return task.state != "done"


class Thread(_Runnable):
    @property
    def ident(self):
        return None if self._vtask is None else self._vtask.idx


class BaseProcess(_Runnable):
    _is_process = True

    @property
    def exitcode(self):
        if not self._vstarted:
            cur().point(Op("exitcode", self._vstart_obj, False))
        if not self._vstarted:
            return None
        task = self._vtask
        cur().point(Op("exitcode", task.obj, False))
        if task.state != "done":
            return None
        return 0 if task.exc is None else 1

    @property
    def pid(self):
        return None if self._vtask is None else 1000 + self._vtask.idx

    def terminate(self):
        raise HarnessError("terminate() is not modelled")

    kill = terminate

    def close(self):
        pass


class Process(BaseProcess):
    pass


class BaseContext:
    Process = Process

    def Event(self):
        return Event()

    def Lock(self):
        return Lock()

    def RLock(self):
        return RLock()

    def Queue(self, maxsize=0):
        return VQueue(maxsize, proc=True)

    def Manager(self):
        return Manager()

    def Value(self, typecode_or_type, *args, lock=True):
        return Value(typecode_or_type, *args)

    def cpu_count(self):
        return cpu_count()

    def get_context(self, method=None):
        return self


def cpu_count():
    return cur().user.get("cpu_count", 2)


_CTX = BaseContext()


def get_context(method=None):
    return _CTX


def _mk_modules():
    mp = types.ModuleType("multiprocessing")
    ctx = types.ModuleType("multiprocessing.context")
    proc = types.ModuleType("multiprocessing.process")
    th = types.ModuleType("threading")
    for m in (mp, ctx):
        m.Process = Process
        m.BaseContext = BaseContext
    proc.BaseProcess = BaseProcess
    mp.context = ctx
    mp.process = proc
    mp.Event = Event
    mp.Lock = Lock
    mp.RLock = RLock
    mp.Queue = lambda maxsize=0: VQueue(maxsize, proc=True)
    mp.Manager = Manager
    mp.Value = Value
    mp.cpu_count = cpu_count
    mp.get_context = get_context
    th.Thread = Thread
    th.Event = Event
    th.Lock = Lock
    th.RLock = RLock

    def missing(modname):
        def __getattr__(name):
            if name.startswith("__"):
                raise AttributeError(name)
            raise HarnessError("the virtual %s module does not model %r (harness limitation, not a verdict)" % (modname, name))
        return __getattr__
    for m_ in (mp, ctx, proc, th):
        m_.__getattr__ = missing(m_.__name__)
    # os: the real module, except that the process id is the one of the VIRTUAL process the caller runs in
    vos = types.ModuleType("os")
    vos.__dict__.update({k: v for k, v in vars(os).items() if not k.startswith("__")})
    vos.getpid = getpid
    vos.getppid = getppid
    return {"multiprocessing": mp, "multiprocessing.context": ctx, "multiprocessing.process": proc, "threading": th,
            "os": vos}


def _process_task(t):
    """the task that stands for the process task t runs in: the nearest ancestor-or-self started as a process, else main"""
    s = cur()
    by_name = {x.lname: x for x in s.tasks}
    name = t.lname
    while len(name) > 1:
        x = by_name.get(name)
        if x is not None and x.is_process:
            return x
        name = name[:-1]
    return by_name.get(("m",), t)


def getpid():
    s = vsched._CUR
    if s is None or s.current is None:
        return os.getpid()
    return 100000 + _process_task(s.current).idx


def getppid():
    s = vsched._CUR
    if s is None or s.current is None:
        return os.getppid()
    p = _process_task(s.current)
    if len(p.lname) <= 1:
        return os.getppid()
    by_name = {x.lname: x for x in s.tasks}
    return 100000 + _process_task(by_name[p.lname[:-1]]).idx


SUB = _mk_modules()


# ---------------------------------------------------------------------------------------------------
# loader: the real source text of /repo over the virtual layer
# ---------------------------------------------------------------------------------------------------

_CODE = {}
COVERED = set()          # (relative path, line) executed at least once (sys.monitoring, aggregated)
_MON_ON = False


def _all_code(code):
    yield code
    for c in code.co_consts:
        if isinstance(c, types.CodeType):
            yield from _all_code(c)


def _line_cb(code, line):
    COVERED.add((code.co_filename, line))
    return sys.monitoring.DISABLE


def _monitor(code):
    global _MON_ON
    mon = sys.monitoring
    if not _MON_ON:
        try:
            mon.use_tool_id(mon.COVERAGE_ID, "verif")
        except ValueError:
            pass
        mon.register_callback(mon.COVERAGE_ID, mon.events.LINE, _line_cb)
        _MON_ON = True
    for c in _all_code(code):
        mon.set_local_events(mon.COVERAGE_ID, c, mon.events.LINE)


def source_path(rel):
    return os.path.join(REPO, rel)


def load(rel, modname, extra_sub=None, extra_globals=None, coverage=True):
    """execute /repo/<rel> in a fresh module namespace whose imports of threading / multiprocessing
    resolve to the virtual layer (and of the names in extra_sub to the given modules)"""
    path = source_path(rel)
    code = _CODE.get(path)
    if code is None:
        with open(path, encoding="utf-8") as f:
            code = compile(f.read(), path, "exec")
        _CODE[path] = code
        if coverage:
            _monitor(code)
    sub = dict(SUB)
    if extra_sub:
        sub.update(extra_sub)
    if rel != "windpyutils/buffers.py" and "windpyutils.buffers" not in sub:
        # the reorder buffers are part of the pools' mechanism: a fresh copy per execution as well, so that state a
        # change might keep at module / class / default-argument level cannot leak from one execution into the next
        sub["windpyutils.buffers"] = load("windpyutils/buffers.py", "windpyutils.buffers", coverage=coverage)
    real_import = builtins.__import__

    def vimport(name, globals=None, locals=None, fromlist=(), level=0):
        if level == 0 and name in sub:
            if fromlist or "." not in name:
                return sub[name]
            return sub[name.split(".")[0]]
        return real_import(name, globals, locals, fromlist, level)

    mod = types.ModuleType(modname)
    mod.__file__ = path
    b = dict(vars(builtins))
    b["__import__"] = vimport
    mod.__dict__["__builtins__"] = b
    if extra_globals:
        mod.__dict__.update(extra_globals)
    exec(code, mod.__dict__)
    return mod


def source_lines(rel):
    with open(source_path(rel), encoding="utf-8") as f:
        return f.read().split("\n")


# ---------------------------------------------------------------------------------------------------
# monitors for unsynchronised attribute accesses (harness subclasses mix this in first)
# ---------------------------------------------------------------------------------------------------

def _mon_obj(obj):
    d = object.__getattribute__(obj, "__dict__")
    m = d.get("_vmon")
    if m is None or m[0] != id(obj):
        o = VObj(kind="obj", hint=type(obj).__name__)
        m = (id(obj), o, {})
        d["_vmon"] = m
    return m


def _mon_access(obj, attr, write):
    s = vsched._CUR
    if s is None or s.aborting or s.current is None:
        return
    _, o, locs = _mon_obj(obj)
    loc = (o.vname, attr)
    if loc in s.racy or ("*", attr) in s.racy:
        lo = locs.get(attr)
        if lo is None:
            lo = VObj.__new__(VObj)
            lo.vname = o.vname + (attr,)
            lo.kind = "attr"
            lo.hint = attr
            lo.w_hash = hash(("new", lo.vname))
            lo.r_hashes = []
            lo.w_vc = {}
            lo.r_vc = {}
            locs[attr] = lo
        s.point(Op(("wr:" if write else "rd:") + attr, lo, write))
    else:
        s.access(loc, write)


class Monitored:
    def __getattribute__(self, name):
        if name in object.__getattribute__(self, "__dict__") and name != "_vmon":
            _mon_access(self, name, False)
        return object.__getattribute__(self, name)

    def __setattr__(self, name, value):
        if type(value) is list:
            value = MonList(value, self, name)
        _mon_access(self, name, True)
        object.__setattr__(self, name, value)


class MonList(list):
    def __init__(self, it, owner, attr):
        super().__init__(it)
        self._o = owner
        self._a = attr + "[]"

    def __getitem__(self, i):
        _mon_access(self._o, self._a, False)
        return list.__getitem__(self, i)

    def __setitem__(self, i, v):
        _mon_access(self._o, self._a, True)
        list.__setitem__(self, i, v)

    def __delitem__(self, i):
        _mon_access(self._o, self._a, True)
        list.__delitem__(self, i)

    def __len__(self):
        _mon_access(self._o, self._a, False)
        return list.__len__(self)

    def __iter__(self):
        i = 0
        while True:
            _mon_access(self._o, self._a, False)
            if i >= list.__len__(self):
                return
            yield list.__getitem__(self, i)
            i += 1

    def append(self, x):
        _mon_access(self._o, self._a, True)
        list.append(self, x)

    def extend(self, xs):
        _mon_access(self._o, self._a, True)
        list.extend(self, xs)

    def insert(self, i, x):
        _mon_access(self._o, self._a, True)
        list.insert(self, i, x)

    def pop(self, *a):
        _mon_access(self._o, self._a, True)
        return list.pop(self, *a)

    def remove(self, x):
        _mon_access(self._o, self._a, True)
        list.remove(self, x)


class LazyInput:
    """input iterable whose every __next__ (items and the final StopIteration alike) may be delayed
    arbitrarily: a yield point, so a switch away from the feeder here is free"""

    def __init__(self, items):
        self._items = list(items)
        self._i = 0

    def __iter__(self):
        return self

    def __next__(self):
        cur().point(Op("input.next", None, False, is_yield=True))
        if self._i >= len(self._items):
            raise StopIteration
        self._i += 1
        return self._items[self._i - 1]
