"""Generic canonical form of an object graph (all internal state, identity -> first-visit numbering)."""
import io
import types


def canon(obj, _memo=None, _depth=0):
    memo = {} if _memo is None else _memo

    def walk(o, d):
        if o is None or isinstance(o, (bool, str, bytes)):
            return o
        if isinstance(o, int):
            return ("i", o)
        if isinstance(o, float):
            return ("f", repr(o))
        if isinstance(o, (type, types.FunctionType, types.BuiltinFunctionType, types.MethodType)):
            return ("callable", getattr(o, "__qualname__", repr(o)))
        oid = id(o)
        if oid in memo:
            return ("ref", memo[oid])
        memo[oid] = len(memo)
        if d > 200:
            return ("deep",)
        if isinstance(o, tuple):
            return ("t",) + tuple(walk(x, d + 1) for x in o)
        if isinstance(o, list):
            return ("l", memo[oid]) + tuple(walk(x, d + 1) for x in o)
        if isinstance(o, dict):
            return ("d", memo[oid]) + tuple((walk(k, d + 1), walk(v, d + 1)) for k, v in o.items())
        if isinstance(o, (set, frozenset)):
            return ("s",) + tuple(sorted((walk(x, d + 1) for x in o), key=repr))
        if isinstance(o, io.IOBase):
            try:
                closed = o.closed
                pos = None if closed else o.tell()
            except Exception:
                closed, pos = None, None
            return ("file", getattr(o, "name", None), getattr(o, "mode", None), closed, pos)
        if type(o).__name__ == "mmap":
            try:
                return ("mmap", o.closed, None if o.closed else o.tell())
            except Exception:
                return ("mmap", None)
        if isinstance(o, types.GeneratorType):
            fr = o.gi_frame
            return ("gen", None if fr is None else fr.f_lasti)
        items = []
        dct = getattr(o, "__dict__", None)
        if isinstance(dct, dict):
            for k in sorted(dct):
                items.append((k, walk(dct[k], d + 1)))
        for cls in type(o).__mro__:
            for s in getattr(cls, "__slots__", ()) or ():
                if isinstance(s, str) and hasattr(o, s) and s not in ("__dict__", "__weakref__"):
                    items.append((s, walk(getattr(o, s), d + 1)))
        if not items and dct is None:
            if type(o).__repr__ is object.__repr__:
                return ("o", type(o).__name__, memo[oid])
            return ("o", type(o).__name__, repr(o))
        return ("o", type(o).__name__, memo[oid]) + tuple(items)

    return walk(obj, _depth)
