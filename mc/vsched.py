"""Engine A: controlled scheduler + stateless, preemption-bounded explorer with a happens-before cache.

One *execution* = one run of a driver function under a Scheduler.  Every virtual thread / process is
a real OS thread holding a private lock; exactly one runs at a time (baton passing).  Before every
operation of the virtual concurrency layer (vmp.py) the running task publishes the operation and
calls point(); the scheduler picks the next task among the enabled ones according to the choice
sequence being replayed / extended.
"""
import _thread
import gc
import os
import sys
import threading
import time
import traceback

STEP_LIMIT = int(os.environ.get("VERIF_STEP_LIMIT", "5000"))


class Abort(BaseException):
    """unwinds every task when an execution is cut (deadlock, livelock, cache hit)"""


class ReplayDivergence(Exception):
    pass


class HarnessError(Exception):
    pass


class VObj:
    """anything the scheduler orders operations on; named schedule-independently"""
    kind = "obj"

    def __init__(self, kind=None, hint=None):
        s = cur()
        self._sched = s
        self.vname = s.new_name()
        if kind:
            self.kind = kind
        self.hint = hint
        self.w_hash = hash(("new", self.vname))
        self.r_hashes = []
        self.w_vc = {}
        self.r_vc = {}

    def __deepcopy__(self, memo):
        return self          # shared between "processes"

    def __copy__(self):
        return self

    def label(self):
        return "%s%s" % (self.kind, ("@" + self.hint) if self.hint else "")


class Op:
    __slots__ = ("label", "obj", "write", "enabled", "is_yield", "timeout", "early")

    def __init__(self, label, obj=None, write=False, enabled=None, is_yield=False, timeout=False):
        self.label = label
        self.obj = obj
        self.write = write
        self.enabled = enabled
        self.is_yield = is_yield
        self.timeout = timeout
        self.early = None       # condition of a timed wait whose timer the environment lets expire early (see vmp.timed)


class Task:
    def __init__(self, sched, idx, lname, role, fn, daemon=False, is_process=False):
        self.sched = sched
        self.idx = idx
        self.lname = lname
        self.role = role
        self.fn = fn
        self.daemon = daemon
        self.is_process = is_process
        self.lock = _thread.allocate_lock()
        self.lock.acquire()
        self.state = "ready"          # ready | done
        self.pending = Op("begin")
        self.timed_out = False
        self.vc = {}
        self.seq = 0
        self.last_hash = 0
        self.exc = None
        self.exc_tb = None
        self.n_children = 0
        self.n_objs = 0
        self.obj = VObj.__new__(VObj)      # the task as an object (start / end / join)
        o = self.obj
        o.vname = ("task",) + lname
        o.kind = "task"
        o.hint = role
        o.w_hash = hash(("new", o.vname))
        o.r_hashes = []
        o.w_vc = {}
        o.r_vc = {}
        self.real = threading.Thread(target=self._main, daemon=True)

    def _main(self):
        s = self.sched
        self.lock.acquire()           # wait for first scheduling
        try:
            if s.aborting:
                raise Abort()
            s.after_wake(self)
            self.fn()
        except Abort:
            pass
        except BaseException as e:   # noqa
            self.exc = e
            self.exc_tb = traceback.format_exc()
        finally:
            s.task_end(self)

    def epoch(self):
        return self.vc.get(self.idx, 0)


_CUR = None
_GC_TICK = [0]


def cur():
    if _CUR is None:
        raise HarnessError("virtual primitive used outside an execution")
    return _CUR


class ExecResult:
    pass


class Scheduler:
    def __init__(self, prefix=(), cache=None, budget_left=None, racy=frozenset(), record_trace=False,
                 step_limit=STEP_LIMIT):
        self.prefix = list(prefix)
        self.cache = cache                  # dict key -> remaining budget (tuple), or None
        self.budget_left = budget_left      # callable(choice index) -> remaining budget *before* that point
        self.racy = set(racy)
        self.racy_new = set()
        self.record_trace = record_trace
        self.step_limit = step_limit
        self.tasks = []
        self.current = None
        self.choices = []
        self.points = []                    # (n_alternatives, kind)  kind: 'p' preempt-cost, 'f' free, 'e' env
        self.aborting = False
        self.outcome = None
        self.blocked = []
        self.steps = 0
        self.trace = []
        self.done_event = threading.Event()
        self.label_counts = {}
        self.new_states = 0
        self.transitions = 0
        self.accesses = {}                  # (owner name, attr) -> access record for race detection
        self.queues = []                    # registry of all virtual queues (oracles look here)
        self.files = {}
        self.user = {}                      # scratch for harness
        self.n_env_dev = 0

    # ---- naming --------------------------------------------------------------------------------
    def new_name(self):
        t = self.current
        t.n_objs += 1
        return t.lname + ("o%d" % t.n_objs,)

    # ---- task management -----------------------------------------------------------------------
    def spawn(self, role, fn, daemon=False, is_process=False):
        parent = self.current
        if parent is None:
            lname = ("m",)
        else:
            parent.n_children += 1
            lname = parent.lname + (parent.n_children,)
        t = Task(self, len(self.tasks), lname, role, fn, daemon, is_process)
        if parent is not None:
            # child's first event chains to the parent's start event
            t.vc = dict(parent.vc)
            t.last_hash = hash(("child", parent.last_hash, lname))
        self.tasks.append(t)
        t.real.start()
        return t

    def after_wake(self, t):
        """called by a task right after it has been scheduled: account the pending operation"""
        op = t.pending
        t.pending = None
        t.seq += 1
        t.vc[t.idx] = t.vc.get(t.idx, 0) + 1
        label = op.label
        if t.timed_out:
            label += ":timeout"
        o = op.obj
        if o is None:
            h = hash((t.lname, t.seq, label, t.last_hash))
        elif op.write and not t.timed_out:
            h = hash((t.lname, t.seq, label, t.last_hash, o.vname, o.w_hash, tuple(sorted(o.r_hashes))))
            for k, v in o.w_vc.items():
                if t.vc.get(k, 0) < v:
                    t.vc[k] = v
            for k, v in o.r_vc.items():
                if t.vc.get(k, 0) < v:
                    t.vc[k] = v
            o.w_hash = h
            o.r_hashes = []
            o.w_vc = dict(t.vc)
            o.r_vc = {}
        else:
            h = hash((t.lname, t.seq, label, t.last_hash, o.vname, o.w_hash))
            for k, v in o.w_vc.items():
                if t.vc.get(k, 0) < v:
                    t.vc[k] = v
            o.r_hashes.append(h)
            for k, v in t.vc.items():
                if o.r_vc.get(k, 0) < v:
                    o.r_vc[k] = v
        t.last_hash = h
        self.transitions += 1
        lc = self.label_counts
        key = label if o is None else label + "/" + o.label()
        lc[key] = lc.get(key, 0) + 1
        if self.record_trace:
            self.trace.append("%s[%s] %s" % (t.role, ".".join(map(str, t.lname)), key))

    def point(self, op):
        """called by the running task before a virtual operation; returns True if the op timed out"""
        t = self.current
        if self.aborting:
            raise Abort()
        if op.obj is not None and getattr(op.obj, "_sched", self) is not self:
            raise Abort()       # an object of an earlier execution, operated by left-over clean-up code
        if t is None or t.real is not threading.current_thread():
            raise HarnessError("point() from a thread that does not hold the baton: %r" % op.label)
        t.pending = op
        try:
            self.dispatch(t)
        except Abort:
            raise
        except BaseException:   # noqa -- scheduler bug: end the execution as a harness error, never hang
            self.internal_error = traceback.format_exc()
            self.outcome = "internal-error"
            self._abort()
            raise Abort()
        if self.aborting:
            raise Abort()
        to = t.timed_out
        if not to and op.early is not None and not op.early():
            to = t.timed_out = True
        self.after_wake(t)
        t.timed_out = False
        return to

    def env_choice(self, n, label="env"):
        """environment nondeterminism (non-default answers cost one deviation each)"""
        if self.aborting:
            raise Abort()
        i = len(self.choices)
        if i < len(self.prefix):
            c = self.prefix[i]
            if c >= n:
                self._diverge("env choice %d out of %d at point %d" % (c, n, i))
        else:
            c = 0
        self.choices.append(c)
        self.points.append((n, "e"))
        if c:
            self.n_env_dev += 1
        return c

    def _diverge(self, msg):
        self.outcome = "divergence"
        self.diverge_msg = msg
        self._abort()
        raise Abort()

    def _enabled(self, t):
        if t.state != "ready" or t.pending is None:
            return False
        e = t.pending.enabled
        return True if e is None else bool(e())

    def dispatch(self, running):
        self.steps += 1
        if self.steps > self.step_limit:
            self.outcome = "livelock"
            self._collect_blocked()
            self._abort()
            raise Abort()
        enabled = [t for t in self.tasks if self._enabled(t)]
        if not enabled:
            waiting = [t for t in self.tasks if t.state == "ready" and t.pending is not None and t.pending.timeout]
            if waiting:
                nxt = min(waiting, key=lambda x: x.lname)
                nxt.timed_out = True
            else:
                live = [t for t in self.tasks if t.state != "done"]
                if not live:
                    self.outcome = "done"
                    self.done_event.set()
                    return
                main_done = self.tasks[0].state == "done"
                if main_done and all(t.daemon for t in live):
                    self.outcome = "done"          # daemons die with the main process
                    self._collect_blocked()
                    self.leftover_daemons = list(self.blocked)
                    self.blocked = []
                    self._abort()
                    if running is not None and running.state != "done":
                        raise Abort()
                    return
                self.outcome = "deadlock"
                self._collect_blocked()
                self._abort()
                if running is not None and running.state != "done":
                    raise Abort()
                return
        else:
            run_en = running is not None and running in enabled
            if len(enabled) > 1:
                enabled.sort(key=lambda x: x.lname)
                if run_en:
                    enabled.remove(running)
                    enabled.insert(0, running)
                i = len(self.choices)
                kind = "p" if (run_en and not running.pending.is_yield) else "f"
                if i < len(self.prefix):
                    c = self.prefix[i]
                    if c >= len(enabled):
                        self._diverge("choice %d out of %d at point %d" % (c, len(enabled), i))
                else:
                    c = 0
                    if self.cache is not None:
                        key = (tuple(t.last_hash for t in self.tasks), running.idx if run_en else -1,
                               tuple(t.idx for t in enabled))
                        left = self.budget_left(i)
                        old = self.cache.get(key)
                        if old is not None and old[0] >= left[0] and old[1] >= left[1]:
                            self.outcome = "cut"
                            self._abort()
                            raise Abort()
                        if old is None:
                            self.new_states += 1
                            self.cache[key] = left
                        else:
                            self.cache[key] = (max(old[0], left[0]), max(old[1], left[1]))
                self.choices.append(c)
                self.points.append((len(enabled), kind))
                nxt = enabled[c]
            else:
                nxt = enabled[0]
        self.current = nxt
        if nxt is not running:
            nxt.lock.release()
            if running is not None and running.state != "done":
                running.lock.acquire()

    def task_end(self, t):
        t.state = "done"
        if self.aborting:
            return
        # thread end is a write to the task object (join / exitcode read it)
        o = t.obj
        t.seq += 1
        t.vc[t.idx] = t.vc.get(t.idx, 0) + 1
        h = hash((t.lname, t.seq, "end", t.last_hash, o.vname, o.w_hash, tuple(sorted(o.r_hashes)), repr(type(t.exc))))
        t.last_hash = h
        o.w_hash = h
        o.r_hashes = []
        o.w_vc = dict(t.vc)
        if self.record_trace:
            self.trace.append("%s[%s] end%s" % (t.role, ".".join(map(str, t.lname)),
                                                 "" if t.exc is None else " !" + type(t.exc).__name__))
        try:
            self.dispatch(t)
        except Abort:
            pass
        except BaseException:   # noqa -- a bug in the scheduler must never leave everybody parked
            self.internal_error = traceback.format_exc()
            self.outcome = "internal-error"
            self._abort()

    def _abort(self):
        if self.aborting:
            return
        self.aborting = True
        me = threading.current_thread()
        for t in self.tasks:
            if t.real is not me and t.state != "done":
                try:
                    t.lock.release()
                except RuntimeError:
                    pass
        self.done_event.set()

    def _collect_blocked(self):
        frames = sys._current_frames()
        out = []
        for t in self.tasks:
            if t.state == "done":
                continue
            fn = None
            fr = frames.get(t.real.ident)
            while fr is not None:
                f = fr.f_code.co_filename
                if f.startswith(LIB_PREFIX):
                    fn = fr.f_code.co_qualname if hasattr(fr.f_code, "co_qualname") else fr.f_code.co_name
                    break
                fr = fr.f_back
            op = t.pending
            out.append({"role": t.role, "task": ".".join(map(str, t.lname)),
                        "op": None if op is None else op.label,
                        "obj": None if op is None or op.obj is None else op.obj.label(),
                        "function": fn})
        self.blocked = out

    # ---- run -----------------------------------------------------------------------------------
    def run(self, driver):
        global _CUR
        if _CUR is not None:
            raise HarnessError("nested execution")
        _CUR = self
        self.leftover_daemons = []
        # no cyclic garbage collection while an execution runs: a collector pass could finalise a suspended generator
        # (or another object with a finaliser) left over from an EARLIER execution in the middle of this one, and its
        # clean-up code would then operate virtual primitives as if it were the running task -- the execution would
        # no longer be a function of its prefix.  Collections happen between executions instead (_CUR is None there,
        # so such clean-up code fails at its first virtual operation and is dropped).
        gc_was = gc.isenabled()
        gc.disable()
        try:
            holder = {}

            def main():
                holder["value"] = driver(self)
            t0 = self.spawn("main", main)
            self.current = t0
            t0.lock.release()
            if not self.done_event.wait(float(os.environ.get("VERIF_EXEC_TIMEOUT", "60"))):
                frames = sys._current_frames()
                dump = []
                for t in self.tasks:
                    fr = frames.get(t.real.ident)
                    dump.append("task %s (%s) state=%s pending=%s\n%s" % (
                        t.lname, t.role, t.state, None if t.pending is None else t.pending.label,
                        "".join(traceback.format_stack(fr)[-5:]) if fr is not None else "  (no frame)\n"))
                self._abort()
                raise HarnessError("execution did not finish (prefix %r, steps %d, current %s):\n%s" % (
                    self.prefix, self.steps, None if self.current is None else self.current.lname, "\n".join(dump)))
            if getattr(self, "internal_error", None):
                raise HarnessError("scheduler internal error:\n" + self.internal_error)
            for t in self.tasks:
                t.real.join(60)
                if t.real.is_alive():
                    fr = sys._current_frames().get(t.real.ident)
                    stack = "".join(traceback.format_stack(fr)[-6:]) if fr is not None else "?"
                    raise HarnessError("task %s (%s) did not unwind (outcome %s, state %s, aborting %s):\n%s" % (
                        t.lname, t.role, self.outcome, t.state, self.aborting, stack))
        finally:
            _CUR = None
            _GC_TICK[0] += 1
            if _GC_TICK[0] % 64 == 0:
                gc.collect()
            if gc_was:
                gc.enable()
        r = ExecResult()
        r.choices = self.choices
        r.points = self.points
        r.outcome = self.outcome
        r.blocked = self.blocked
        r.leftover_daemons = self.leftover_daemons
        r.value = holder.get("value")
        r.exceptions = [(t.role, ".".join(map(str, t.lname)), type(t.exc).__name__, str(t.exc), t.exc_tb)
                        for t in self.tasks if t.exc is not None]
        r.trace = self.trace
        r.steps = self.steps
        r.transitions = self.transitions
        r.new_states = self.new_states
        r.racy_new = self.racy_new
        r.label_counts = self.label_counts
        r.n_tasks = len(self.tasks)
        r.diverge_msg = getattr(self, "diverge_msg", None)
        r.user = self.user
        r.tasks = [(t.role, ".".join(map(str, t.lname)), t.is_process, t.daemon,
                    None if t.exc is None else type(t.exc).__name__) for t in self.tasks]
        r.queues = self.queues
        return r

    # ---- unsynchronised attribute accesses (race detector) -----------------------------------------
    def access(self, loc, write):
        """called by monitored objects on every instance-attribute access"""
        if self.aborting:
            return
        t = self.current
        if t is None:
            return
        if loc in self.racy:
            return        # already a scheduling point (ordered by HB through the point)
        rec = self.accesses.get(loc)
        ep = (t.idx, t.vc.get(t.idx, 0))
        if rec is None:
            self.accesses[loc] = rec = {"w": None, "r": {}}
        w = rec["w"]
        racy = False
        if w is not None and w[0] != t.idx and not (t.vc.get(w[0], 0) > w[1]):
            racy = True
        if write:
            for ridx, rep in rec["r"].items():
                if ridx != t.idx and not (t.vc.get(ridx, 0) > rep):
                    racy = True
            rec["w"] = ep
            rec["r"] = {}
        else:
            rec["r"][t.idx] = ep[1]
        if racy:
            self.racy_new.add(loc)


LIB_PREFIX = os.environ.get("VERIF_REPO", "/repo") + "/"


def _quiet_unraisable(u):
    if isinstance(u.exc_value, Abort):
        return
    if isinstance(u.exc_value, HarnessError) and "outside an execution" in str(u.exc_value):
        return      # clean-up code of a finished execution's garbage, run by a collection between executions
    sys.__unraisablehook__(u)


sys.unraisablehook = _quiet_unraisable


# ================================================================================================
# Explorer
# ================================================================================================

def cost_of(points, choices, upto=None):
    """(preemptions, env deviations) of choices[:upto]"""
    p = e = 0
    n = len(choices) if upto is None else upto
    for i in range(n):
        if choices[i]:
            k = points[i][1]
            if k == "p":
                p += 1
            elif k == "e":
                e += 1
    return p, e


class Explorer:
    """DFS over choice sequences of `driver` within (preemption bound, env-deviation bound).

    check(result) -> list of (signature, what, extra) violations for one complete execution."""

    def __init__(self, driver, check, pbound, ebound=0, use_cache=True, racy=frozenset(), observe=None,
                 max_execs=None):
        self.driver = driver
        self.check = check
        self.pbound = pbound          # None = unbounded
        self.ebound = ebound
        self.use_cache = use_cache
        self.racy = set(racy)
        self.cache = {} if use_cache else None
        self.observe = observe or (lambda r: None)
        self.max_execs = max_execs
        self.stats = {"executions": 0, "complete": 0, "cut": 0, "hb_states": 0, "transitions": 0,
                      "deadlocks": 0, "livelocks": 0, "max_choice_points": 0, "max_tasks": 0}
        self.observations = {}
        self.violations = {}          # key -> [item returned by check, replay, count]
        self.label_counts = {}
        self.racy_grew = False
        self.capped = False
        self.samples = []

    BIG = 10 ** 9

    def run_one(self, prefix, record_trace=False, use_cache=None):
        prefix = list(prefix)
        pcost = [None]

        def budget_left(i):
            # remaining budget before choice point i (i >= len(prefix): everything after the prefix is default)
            if pcost[0] is None:
                pcost[0] = cost_of(s.points, s.choices, len(prefix))
            p, e = pcost[0]
            return ((self.BIG if self.pbound is None else self.pbound - p), self.ebound - e)
        cache = self.cache if (use_cache if use_cache is not None else self.use_cache) else None
        for attempt in range(3):
            pcost[0] = None
            s = Scheduler(prefix, cache, budget_left, self.racy, record_trace)
            try:
                r = s.run(self.driver)
                break
            except HarnessError as e:
                # executions are deterministic functions of the prefix: a stuck harness thread (never observed twice
                # for the same prefix) is retried and counted; anything else is an error
                global _CUR
                _CUR = None
                if attempt == 2 or "did not" not in str(e):
                    raise
                self.stats["harness_retries"] = self.stats.get("harness_retries", 0) + 1
                sys.stderr.write("harness retry %d: %s\n" % (attempt + 1, str(e)[:2000]))
        if r.outcome == "divergence":
            raise ReplayDivergence("%s (prefix %r)" % (r.diverge_msg, prefix))
        if len(r.choices) < len(prefix):
            raise ReplayDivergence("execution ended after %d choice points, prefix has %d (%r)" % (
                len(r.choices), len(prefix), prefix))
        return r

    def explore(self, prefixes=((),)):
        stack = [list(p) for p in reversed(list(prefixes))]
        st = self.stats
        while stack:
            if self.max_execs is not None and st["executions"] >= self.max_execs:
                self.capped = True
                break
            prefix = stack.pop()
            r = self.run_one(prefix)
            self.account(r, prefix)
            if self.racy_grew:
                return
            self.expand(r, prefix, stack)

    def account(self, r, prefix):
        for role, task, ename, msg, tb in r.exceptions:
            if ename == "HarnessError":
                raise HarnessError("%s: %s" % (role, msg))
        st = self.stats
        st["executions"] += 1
        st["transitions"] += r.transitions
        st["hb_states"] += r.new_states
        st["max_choice_points"] = max(st["max_choice_points"], len(r.points))
        st["max_tasks"] = max(st["max_tasks"], r.n_tasks)
        for k, v in r.label_counts.items():
            self.label_counts[k] = self.label_counts.get(k, 0) + 1
        if r.racy_new - self.racy:
            self.racy |= r.racy_new
            self.racy_grew = True
            return
        if r.outcome == "cut":
            st["cut"] += 1
            return
        st["complete"] += 1
        if r.outcome == "deadlock":
            st["deadlocks"] += 1
        elif r.outcome == "livelock":
            st["livelocks"] += 1
        obs = self.observe(r)
        if obs is not None:
            self.observations[obs] = self.observations.get(obs, 0) + 1
        if len(self.samples) < 2 or (obs is not None and self.observations.get(obs) == 1 and len(self.samples) < 6):
            self.samples.append({"choices": list(r.choices), "outcome": r.outcome, "observation": obs})
        for item in self.check(r):
            key = repr(item[:2])
            old = self.violations.get(key)
            if old is None:
                self.violations[key] = [item, {"choices": list(r.choices), "cost": cost_of(r.points, r.choices)}, 1]
            else:
                old[2] += 1

    def expand(self, r, prefix, stack):
        p0, e0 = cost_of(r.points, r.choices, len(prefix))
        new = []
        for i in range(len(prefix), len(r.points)):
            n, kind = r.points[i]
            p, e = p0, e0
            if kind == "p":
                p += 1
            elif kind == "e":
                e += 1
            if (self.pbound is not None and p > self.pbound) or e > self.ebound:
                continue
            base = r.choices[:i]
            for alt in range(1, n):
                new.append(base + [alt])
        # deepest first so that DFS stays near the previous execution (cache friendly)
        stack.extend(new)

    def frontier(self, want):
        """expand breadth-first from the root until at least `want` pending prefixes exist (for fan-out)"""
        pending = [[]]
        done = 0
        while pending and len(pending) < want:
            if self.max_execs is not None and self.stats["executions"] >= self.max_execs:
                self.capped = True
                break
            prefix = pending.pop(0)
            r = self.run_one(prefix)
            self.account(r, prefix)
            if self.racy_grew:
                return []
            self.expand(r, prefix, pending)
            done += 1
        return pending


# ================================================================================================
# Parallel exploration of ONE driver: shared happens-before cache + dynamic work distribution
# ================================================================================================

class ShmCache:
    """open-addressing table of 64-bit words in shared memory: 56-bit state hash | 4-bit preemption
    budget | 4-bit env budget.  Races are benign: a lost insert only causes re-exploration; words are
    written with one aligned 8-byte store.  A full neighbourhood is treated as a miss."""
    PROBE = 24

    def __init__(self, bits=22):
        from multiprocessing import shared_memory
        self.n = 1 << bits
        self.shm = shared_memory.SharedMemory(create=True, size=self.n * 8)
        self.v = self.shm.buf.cast("Q")
        self.mask = self.n - 1
        self.inserted = 0

    @staticmethod
    def _enc(left):
        p = 15 if left[0] > 14 else max(0, left[0])
        e = 15 if left[1] > 14 else max(0, left[1])
        return p, e

    def get(self, key):
        h = hash(key)
        h56 = ((h >> 4) & 0x7FFFFFFFFFFFFF) | (1 << 55)
        i = h & self.mask
        v = self.v
        for _ in range(self.PROBE):
            w = v[i]
            if w == 0:
                return None
            if (w >> 8) == h56:
                return ((w >> 4) & 15, w & 15)
            i = (i + 1) & self.mask
        return None

    def __setitem__(self, key, left):
        p, e = self._enc(left)
        h = hash(key)
        h56 = ((h >> 4) & 0x7FFFFFFFFFFFFF) | (1 << 55)
        i = h & self.mask
        v = self.v
        for _ in range(self.PROBE):
            w = v[i]
            if w == 0 or (w >> 8) == h56:
                if w == 0:
                    self.inserted += 1
                v[i] = (h56 << 8) | (p << 4) | e
                return
            i = (i + 1) & self.mask

    def close(self):
        try:
            self.v.release()
            self.shm.close()
            self.shm.unlink()
        except Exception:
            pass


def explore_parallel(make_explorer, nproc, bits=22):
    """make_explorer() -> Explorer (fresh, with the racy set to use).  Runs nproc workers sharing one
    ShmCache and one work queue; returns the merged Explorer (stats / violations / observations)."""
    import multiprocessing as mp
    import queue as _q
    from . import par, vmp
    ctx = mp.get_context("fork")
    cache = ShmCache(bits)
    work_q = ctx.Queue()
    res_q = ctx.Queue()
    pending = ctx.Value("q", 1)
    stop = ctx.Value("i", 0)
    work_q.put([[]])
    root = make_explorer()

    def worker(wi):
        try:
            if os.environ.get("VERIF_WATCHDOG"):
                import faulthandler
                faulthandler.dump_traceback_later(int(os.environ["VERIF_WATCHDOG"]), exit=True)
            par.pin_self(par._ALL_CPUS[(os.getppid() + wi) % len(par._ALL_CPUS)])
            ex = make_explorer()
            ex.cache = cache
            if ex.pbound is None:
                ex.BIG = 15
            local = []
            while not stop.value:
                if not local:
                    try:
                        local.extend(work_q.get(timeout=0.02))
                    except _q.Empty:
                        if pending.value <= 0:
                            break
                        continue
                if ex.max_execs is not None and ex.stats["executions"] >= ex.max_execs:
                    ex.capped = True
                    with pending.get_lock():
                        pending.value -= len(local)
                    local = []
                    continue
                prefix = local.pop()
                r = ex.run_one(prefix)
                ex.account(r, prefix)
                if ex.racy_grew:
                    stop.value = 1
                    break
                new = []
                ex.expand(r, prefix, new)
                with pending.get_lock():
                    pending.value += len(new) - 1
                local.extend(new)
                if len(local) > 3 and work_q.qsize() < nproc:
                    k = len(local) // 2
                    work_q.put(local[:k])
                    del local[:k]
            ex.stats["hb_states"] = cache.inserted
            res_q.put((wi, ex.stats, ex.violations, ex.observations, ex.racy, ex.racy_grew, ex.label_counts,
                       ex.capped, ex.samples, set(vmp.COVERED), None))
        except BaseException:   # noqa
            stop.value = 1
            res_q.put((wi, None, None, None, None, None, None, None, None, None, traceback.format_exc()))
        finally:
            res_q.close()
            res_q.join_thread()
            os._exit(0)

    procs = [ctx.Process(target=worker, args=(i,), daemon=True) for i in range(nproc)]
    for p in procs:
        p.start()
    err = None
    try:
        reported = set()
        for _ in range(nproc):
            while True:
                try:
                    item = res_q.get(timeout=5)
                    break
                except _q.Empty:
                    dead = [i for i, p in enumerate(procs) if i not in reported and not p.is_alive()]
                    if dead:
                        # give a result that was just flushed a last chance, then give up on that worker
                        try:
                            item = res_q.get(timeout=5)
                            break
                        except _q.Empty:
                            stop.value = 1
                            raise HarnessError("explorer worker(s) %r exited without reporting" % dead)
            wi, st, viol, obs, rc, grew, labels, capped, samples, cov, e = item
            reported.add(wi)
            if e is not None:
                err = e
                continue
            for k, val in st.items():
                if k.startswith("max_"):
                    root.stats[k] = max(root.stats.get(k, 0), val)
                else:
                    root.stats[k] = root.stats.get(k, 0) + val
            for key, (item, rep, cnt) in viol.items():
                old = root.violations.get(key)
                if old is None:
                    root.violations[key] = [item, rep, cnt]
                else:
                    old[2] += cnt
                    if (rep["cost"], len(rep["choices"])) < (old[1]["cost"], len(old[1]["choices"])):
                        old[0], old[1] = item, rep
            for k, val in obs.items():
                root.observations[k] = root.observations.get(k, 0) + val
            for k, val in labels.items():
                root.label_counts[k] = root.label_counts.get(k, 0) + val
            if grew:
                root.racy |= rc
                root.racy_grew = True
            root.capped = root.capped or capped
            root.samples.extend(samples[:1])
            vmp.COVERED.update(cov)
    finally:
        for p in procs:
            p.join(5)
            if p.is_alive():
                p.kill()
        # drain the work queue so that its feeder thread can exit
        try:
            while True:
                work_q.get_nowait()
        except Exception:
            pass
        cache.close()
    if err is not None:
        raise HarnessError("explorer worker failed:\n" + err)
    return root
