"""Engine C: explicit-state exploration of a sequential API in lock-step with a reference model.

A Spec subclass describes: initial configurations, the op menu in a state, how to apply an op to
the real object (-> observation), how the reference model steps / which observations it allows, an
invariant over internals, and a canonical key.  States are (init, history) pairs; the object is
rebuilt by replaying the history on a fresh instance (live objects with files / generators do not
copy), every op of the menu is applied in every distinct state, and successors are de-duplicated
by canonical key.  Breadth-first, so the first counterexample is a shortest one.
"""
import collections
import itertools
import os
import sys
import traceback

from .canon import canon

REPO = os.environ.get("VERIF_REPO", "/repo")


class Mismatch(Exception):
    """Raised by a spec when observation / invariant disagrees with the reference."""

    def __init__(self, kind, detail, sig_extra=None):
        super().__init__(kind, detail)
        self.kind = kind
        self.detail = detail
        self.sig_extra = sig_extra or {}


class BudgetExceeded(BaseException):
    pass


class StepBudget:
    """Deterministic step budget: counts 'line' events in frames of /repo code; no wall clock."""

    def __init__(self, limit=20000, prefix=None):
        self.limit = limit
        self.prefix = prefix or (REPO + "/")
        self.n = 0

    def _local(self, frame, event, arg):
        if event == "line":
            self.n += 1
            if self.n > self.limit:
                raise BudgetExceeded()
        return self._local

    def _global(self, frame, event, arg):
        if frame.f_code.co_filename.startswith(self.prefix):
            return self._local
        return None

    def run(self, fn, *a):
        self.n = 0
        old = sys.gettrace()
        sys.settrace(self._global)
        try:
            return fn(*a)
        finally:
            sys.settrace(old)


def observe(fn, *a, budget=None):
    """Run fn; return ('ok', value) | ('exc', ExceptionClassName) | ('diverges',)"""
    try:
        if budget is not None:
            return ("ok", budget.run(fn, *a))
        return ("ok", fn(*a))
    except BudgetExceeded:
        return ("diverges",)
    except RecursionError:
        return ("exc", "RecursionError")
    except Exception as e:   # noqa
        return ("exc", type(e).__name__)


class Spec:
    name = "spec"

    def initials(self):
        """-> iterable of JSON-able init descriptors"""
        return [None]

    def build(self, init):
        """-> (impl, model) fresh"""
        raise NotImplementedError

    def ops(self, impl, model):
        """-> list of JSON-able op descriptors, simplest first"""
        raise NotImplementedError

    def step(self, impl, model, op):
        """apply op to impl, advance model (return new model), raise Mismatch on disagreement"""
        raise NotImplementedError

    def check(self, impl, model):
        """invariants + full observation; raise Mismatch"""

    def key(self, impl, model):
        return (canon(impl), canon(model))

    def nontrivial(self, impl, model):
        return True

    def cleanup(self, impl):
        pass

    def snippet(self, init, hist):
        return None


def explore(spec, report, max_depth, max_states=None, sig_base=None, stop_on_first_per_sig=True):
    """Exhaustive BFS to max_depth (None = until the reachable graph is closed).
    Returns dict(states, transitions, depth_reached, closed)."""
    sig_base = dict(sig_base or {}, spec=spec.name)
    seen = set()
    frontier = collections.deque()
    states = transitions = 0
    nontriv = 0
    closed = True
    maxd = 0
    seen_sigs = set()

    decoy = {}

    # a second, populated instance of the same class that is alive during the whole exploration: instances are
    # independent objects, so nothing done to the instances under test may change it (class- / module-level state)
    mk = getattr(spec, "decoy", None)
    if mk is not None:
        try:
            d = mk()
        except Exception as e:   # noqa -- building a populated second instance uses ordinary operations only
            d = None
            import traceback as _tb
            frames = _tb.extract_tb(e.__traceback__)
            lib = os.path.realpath(os.environ.get("VERIF_REPO", "/repo")) + os.sep
            if not frames or not os.path.realpath(frames[-1].filename).startswith(lib):
                raise       # raised by the harness itself, not inside the library: a harness error, not a verdict
            report.violation(dict(sig_base, kind="raises", op="second-instance"),
                             "%s: building a second, populated instance with ordinary operations raised %s: %s" % (
                                 spec.name, type(e).__name__, e),
                             {"engine": "seqmc", "spec": spec.name, "detail": "decoy construction", "exc": type(e).__name__})
        if d is not None:
            decoy["obj"], decoy["key"] = d[0], d[1](d[0])
            decoy["keyfn"] = d[1]

    def rebuild(init, hist):
        impl, model = spec.build(init)
        for op in hist:
            model = spec.step(impl, model, op)
        return impl, model

    def check_decoy():
        if decoy and decoy["keyfn"](decoy["obj"]) != decoy["key"]:
            raise Mismatch("other-instance-disturbed", "a second instance that was not touched changed: %r -> %r" % (
                decoy["key"], decoy["keyfn"](decoy["obj"])))

    def report_mismatch(m, init, hist, op):
        sig = dict(sig_base, kind=m.kind, op=(op[0] if isinstance(op, (list, tuple)) and op else op))
        sig.update(m.sig_extra)
        k = repr(sorted(sig.items()))
        if k in seen_sigs:
            report.violation(sig, "", {})   # counted as duplicate
            return
        seen_sigs.add(k)
        full = list(hist) + ([op] if op is not None else [])
        report.violation(sig, "%s: %s after init=%r history=%r: %s" % (spec.name, m.kind, init, full, m.detail),
                         {"engine": "seqmc", "spec": spec.name, "init": init, "history": full,
                          "detail": m.detail, "snippet": spec.snippet(init, full)})

    for init in spec.initials():
        try:
            impl, model = spec.build(init)
            spec.check(impl, model)
        except Mismatch as m:
            report_mismatch(m, init, [], None)
            continue
        k = spec.key(impl, model)
        spec.cleanup(impl)
        if k in seen:
            continue
        seen.add(k)
        states += 1
        frontier.append((init, ()))
    n_init = states
    while frontier:
        init, hist = frontier.popleft()
        maxd = max(maxd, len(hist))
        if max_depth is not None and len(hist) >= max_depth:
            closed = False
            continue
        try:
            impl, model = rebuild(init, hist)
        except Mismatch as m:
            # the same history passed when it was first executed: the library's behaviour depends on something
            # other than the operations (memory addresses, leftover state); the failing replay is a real execution
            report_mismatch(Mismatch(m.kind, "when the history was executed again: " + str(m.detail),
                                     dict(m.sig_extra, reproducible=False)), init, hist, None)
            continue
        menu = spec.ops(impl, model)
        spec.cleanup(impl)
        for op in menu:
            try:
                impl, model = rebuild(init, hist)
            except Mismatch as m:
                report_mismatch(Mismatch(m.kind, "when the history was executed again: " + str(m.detail),
                                         dict(m.sig_extra, reproducible=False)), init, hist, None)
                break
            transitions += 1
            try:
                model2 = spec.step(impl, model, op)
                spec.check(impl, model2)
                if transitions % 64 == 0:
                    check_decoy()      # (a disturbance persists, so it is also seen by the check after the menu)
            except Mismatch as m:
                report_mismatch(m, init, hist, op)
                spec.cleanup(impl)
                continue
            except BudgetExceeded:
                report_mismatch(Mismatch("diverges", "step budget exceeded"), init, hist, op)
                spec.cleanup(impl)
                continue
            except Exception as e:   # noqa -- the library (or the spec) raised outside observe()
                tb = traceback.extract_tb(e.__traceback__)
                where = "%s:%d" % (os.path.basename(tb[-1].filename), tb[-1].lineno) if tb else "?"
                report_mismatch(Mismatch("unexpected-exception", "%s: %s at %s" % (type(e).__name__, e, where),
                                         {"exc": type(e).__name__}), init, hist, op)
                spec.cleanup(impl)
                continue
            k = spec.key(impl, model2)
            if op is menu[-1]:
                try:
                    check_decoy()
                except Mismatch as m:
                    report_mismatch(m, init, hist, ("<some operation of the menu applied in this state>",))
                    decoy.clear()
            if k not in seen:
                seen.add(k)
                states += 1
                if spec.nontrivial(impl, model2):
                    nontriv += 1
                if max_states is not None and states > max_states:
                    closed = False
                else:
                    frontier.append((init, hist + (op,)))
                if states <= n_init + 2 or states % 97 == 0:
                    report.sample({"spec": spec.name, "init": init, "history": list(hist) + [op]})
            spec.cleanup(impl)
    report.part(spec.name, states=states, transitions=transitions, traces_validated_against_impl=transitions,
                evaluations=transitions, initial_states=n_init, depth_bound=max_depth, max_depth_seen=maxd,
                reachable_graph_closed=closed, exhaustive=True)
    report.nontrivial_n(nontriv)
    return {"states": states, "transitions": transitions, "closed": closed, "depth": maxd}
