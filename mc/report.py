"""Evidence, violations, replays and known findings -- shared by all engines.

A check creates one Report, feeds it counts / samples / violations and calls finish().
Nothing here decides a property; it records what the deciding enumeration covered.
"""
import hashlib
import json
import os
import re
import sys
import time

HERE = os.path.dirname(os.path.dirname(os.path.abspath(__file__)))
# evidence / replays of runs against a scratch copy (seeded changes) go elsewhere so that /verif/evidence always
# describes /repo itself
VERIF = os.environ.get("VERIF_OUT") or HERE
FINDINGS_FILE = os.path.join(HERE, "known_findings.json")
MAX_VIOLATION_LINES = 8        # distinct signatures reported per run (the rest is counted)


def _jsonable(x):
    if isinstance(x, (str, int, bool)) or x is None:
        return x
    if isinstance(x, float):
        return x if x == x and x not in (float("inf"), float("-inf")) else repr(x)
    if isinstance(x, bytes):
        return {"bytes": x.decode("latin-1")}
    if isinstance(x, dict):
        return {str(k): _jsonable(v) for k, v in x.items()}
    if isinstance(x, (list, tuple)):
        return [_jsonable(v) for v in x]
    if isinstance(x, (set, frozenset)):
        return sorted((_jsonable(v) for v in x), key=repr)
    return repr(x)


def load_findings():
    try:
        with open(FINDINGS_FILE) as f:
            return json.load(f)
    except FileNotFoundError:
        return []


def _match_value(pat, val):
    if isinstance(pat, str) and pat.startswith("re:"):
        return isinstance(val, str) and re.fullmatch(pat[3:], val) is not None
    if isinstance(pat, list) and not isinstance(val, list):
        return val in pat
    return pat == val


def finding_matches(entry, prop, signature):
    """A known finding matches a violation iff it is for the same property, has status 'known' and every
    key of its 'signature' is present in the violation's signature with a matching value."""
    if entry.get("status") != "known" or entry.get("property") != prop:
        return False
    sig = entry.get("signature", {})
    if not sig:
        return False
    for k, pat in sig.items():
        if k not in signature or not _match_value(pat, signature[k]):
            return False
    return True


class Report:
    def __init__(self, prop, tier="quick", seed=0, level="model_checking", collect_only=False):
        self.collect_only = collect_only
        self.pending = {}
        self.prop = prop
        self.tier = tier
        self.seed = seed
        self.level = level
        self.t0 = time.time()
        self.cov = {"states": 0, "transitions": 0, "traces_validated_against_impl": 0,
                    "evaluations": 0, "distinct_nontrivial": 0, "rule": "", "samples": [],
                    "exhaustive": True, "parts": []}
        self.assumptions = []
        self.violations = {}      # signature-key -> (signature, what, replay path, count)
        self.known_hits = {}      # finding id -> count
        self.harness_errors = []
        self.findings = load_findings()
        self._nontrivial = set()

    # ---- coverage -------------------------------------------------------------------------------
    def add(self, **kw):
        for k, v in kw.items():
            self.cov[k] = self.cov.get(k, 0) + v

    def part(self, name, **kw):
        """Per-driver / per-spec record; also accumulates the standard counters."""
        rec = {"name": name}
        rec.update(_jsonable(kw))
        self.cov["parts"].append(rec)
        for k in ("states", "transitions", "traces_validated_against_impl", "evaluations"):
            if k in kw:
                self.cov[k] += kw[k]
        if kw.get("exhaustive") is False:
            self.cov["exhaustive"] = False
        return rec

    def nontrivial(self, key):
        self._nontrivial.add(key)

    def nontrivial_n(self, n):
        self.cov["distinct_nontrivial"] += n

    def sample(self, x, limit=6):
        if len(self.cov["samples"]) < limit:
            self.cov["samples"].append(_jsonable(x))

    def rule(self, text):
        self.cov["rule"] = text

    def assume(self, text):
        if text not in self.assumptions:
            self.assumptions.append(text)

    # ---- violations -----------------------------------------------------------------------------
    def violation(self, signature, what, replay):
        """signature: small dict identifying the *kind* of failure (used for known findings and
        de-duplication); what: one line; replay: JSON-able dict sufficient to re-execute."""
        signature = _jsonable(signature)
        key = json.dumps(signature, sort_keys=True)
        if self.collect_only:
            if key in self.pending:
                self.pending[key][3] += 1
            else:
                self.pending[key] = [signature, what, _jsonable(replay), 1]
            return "pending"
        for e in self.findings:
            if finding_matches(e, self.prop, signature):
                fid = e.get("id", "?")
                if fid not in self.known_hits:
                    self.known_hits[fid] = [0, e.get("what", what), signature]
                self.known_hits[fid][0] += 1
                return "known"
        if key in self.violations:
            self.violations[key][3] += 1
            return "dup"
        path = None
        if len(self.violations) < MAX_VIOLATION_LINES:
            d = os.path.join(VERIF, "replays", self.prop)
            os.makedirs(d, exist_ok=True)
            digest = hashlib.sha1(key.encode() + json.dumps(_jsonable(replay), sort_keys=True).encode()).hexdigest()[:12]
            path = os.path.join(d, digest + ".json")
            with open(path, "w") as f:
                json.dump({"property": self.prop, "signature": signature, "what": what,
                           "replay": _jsonable(replay)}, f, indent=1, sort_keys=True)
        self.violations[key] = [signature, what, path, 1]
        return "new"

    def dump(self):
        """picklable content of a collect_only report (for worker processes)"""
        self.cov["distinct_nontrivial"] += 0
        return {"cov": self.cov, "pending": self.pending, "nontrivial": self._nontrivial,
                "assumptions": self.assumptions, "harness_errors": self.harness_errors}

    def merge(self, d):
        c = d["cov"]
        for k in ("states", "transitions", "traces_validated_against_impl", "evaluations", "distinct_nontrivial"):
            self.cov[k] += c.get(k, 0)
        if c.get("exhaustive") is False:
            self.cov["exhaustive"] = False
        self.cov["parts"].extend(c.get("parts", []))
        for s_ in c.get("samples", []):
            self.sample(s_)
        for k, v in c.items():
            if k not in ("states", "transitions", "traces_validated_against_impl", "evaluations",
                         "distinct_nontrivial", "exhaustive", "parts", "samples", "rule"):
                if isinstance(v, (int, float)) and not isinstance(v, bool):
                    self.cov[k] = self.cov.get(k, 0) + v
        self._nontrivial |= d["nontrivial"]
        for a in d["assumptions"]:
            self.assume(a)
        self.harness_errors.extend(d["harness_errors"])
        for key, (sig, what, replay, cnt) in d["pending"].items():
            r = self.violation(sig, what, replay)
            if cnt > 1:
                if r == "known":
                    for e in self.findings:
                        if finding_matches(e, self.prop, sig):
                            self.known_hits[e.get("id", "?")][0] += cnt - 1
                            break
                else:
                    self.violations[key][3] += cnt - 1

    def harness_error(self, msg):
        self.harness_errors.append(msg)

    # ---- end ------------------------------------------------------------------------------------
    def finish(self):
        self.cov["distinct_nontrivial"] += len(self._nontrivial)
        wall = time.time() - self.t0
        n_viol = sum(v[3] for v in self.violations.values())
        ev = {"property_id": self.prop, "tier": self.tier, "seed": self.seed, "level": self.level,
              "coverage": self.cov, "assumptions": self.assumptions, "wall_s": round(wall, 3),
              "violations": n_viol,
              "known_findings_hit": {k: v[0] for k, v in self.known_hits.items()},
              "violation_signatures": [v[0] for v in self.violations.values()],
              "harness_errors": self.harness_errors}
        os.makedirs(os.path.join(VERIF, "evidence"), exist_ok=True)
        path = os.path.join(VERIF, "evidence", self.prop + ".json")
        tmp = path + ".tmp%d" % os.getpid()
        with open(tmp, "w") as f:
            json.dump(_jsonable(ev), f, indent=1)
        os.replace(tmp, path)
        for fid, (cnt, what, sig) in sorted(self.known_hits.items()):
            print("KNOWN-FINDING: property=%s %s [%s; %d occurrences in this run]" % (self.prop, what, fid, cnt))
        for sig, what, rpath, cnt in self.violations.values():
            if rpath is not None:
                print("VIOLATION property=%s replay=%s" % (self.prop, rpath))
                print("  what: %s (x%d)" % (what, cnt))
        c = self.cov
        print("%s tier=%s states=%d transitions=%d executions=%d evaluations=%d nontrivial=%d exhaustive=%s "
              "violations=%d known=%d wall=%.1fs" % (
                  self.prop, self.tier, c["states"], c["transitions"], c["traces_validated_against_impl"],
                  c["evaluations"], c["distinct_nontrivial"], c["exhaustive"], n_viol,
                  sum(v[0] for v in self.known_hits.values()), wall))
        sys.stdout.flush()
        if self.harness_errors:
            for m in self.harness_errors[:10]:
                print("HARNESS-ERROR: " + m, file=sys.stderr)
            return 2
        return 1 if self.violations else 0
