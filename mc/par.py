"""Deterministic fan-out over the 16 cores: tasks are an explicit list, results are merged in task order."""
import multiprocessing
import os
import sys
import traceback

NPROC = int(os.environ.get("VERIF_PROCS", str(min(16, os.cpu_count() or 1))))

_FN = None


def _call(i_arg):
    i, arg = i_arg
    try:
        return i, _FN(arg), None
    except BaseException:   # noqa
        return i, None, traceback.format_exc()


def pmap(fn, args, procs=None, chunksize=1):
    """fork-based (fn and its closure need not pickle); returns results in order of args.
    A worker exception is re-raised in the parent as RuntimeError (harness error)."""
    global _FN
    args = list(args)
    procs = procs or NPROC
    if procs <= 1 or len(args) <= 1:
        return [fn(a) for a in args]
    _FN = fn
    ctx = multiprocessing.get_context("fork")
    out = [None] * len(args)
    with ctx.Pool(min(procs, len(args))) as pool:
        for i, res, err in pool.imap_unordered(_call, list(enumerate(args)), chunksize):
            if err is not None:
                pool.terminate()
                raise RuntimeError("worker failed on task %d:\n%s" % (i, err))
            out[i] = res
    return out
