"""Deterministic fan-out over the 16 cores: tasks are an explicit list, results are merged in task order."""
import multiprocessing
import os
import sys
import traceback

NPROC = int(os.environ.get("VERIF_PROCS", str(min(16, os.cpu_count() or 1))))

_FN = None
_ALL_CPUS = sorted(os.sched_getaffinity(0)) if hasattr(os, "sched_getaffinity") else [0]


def pin_self(cpu=None):
    """thread hand-offs inside one process are ~7x faster when all its threads share one core"""
    try:
        if cpu is None and len(os.sched_getaffinity(0)) == 1:
            return          # already pinned (pmap worker)
        os.sched_setaffinity(0, {_ALL_CPUS[os.getpid() % len(_ALL_CPUS)] if cpu is None else cpu})
    except (OSError, AttributeError):
        pass


def unpin_self():
    try:
        os.sched_setaffinity(0, set(_ALL_CPUS))
    except (OSError, AttributeError):
        pass


def _init(q):
    try:
        os.sched_setaffinity(0, {q.get()})
    except (OSError, AttributeError):
        pass


def _call(i_arg):
    i, arg = i_arg
    try:
        return i, _FN(arg), None
    except BaseException:   # noqa
        return i, None, traceback.format_exc()


def pmap(fn, args, procs=None, chunksize=1):
    """fork-based (fn and its closure need not pickle); returns results in order of args.
    A worker exception is re-raised in the parent as RuntimeError (harness error)."""
    global _FN
    args = list(args)
    procs = procs or NPROC
    if procs <= 1 or len(args) <= 1:
        return [fn(a) for a in args]
    _FN = fn
    ctx = multiprocessing.get_context("fork")
    out = [None] * len(args)
    n = min(procs, len(args))
    q = ctx.Queue()
    off = os.getpid()       # checks running side by side should not all crowd on the first cores
    for i in range(n):
        q.put(_ALL_CPUS[(off + i) % len(_ALL_CPUS)])
    with ctx.Pool(n, initializer=_init, initargs=(q,)) as pool:
        for i, res, err in pool.imap_unordered(_call, list(enumerate(args)), chunksize):
            if err is not None:
                pool.terminate()
                raise RuntimeError("worker failed on task %d:\n%s" % (i, err))
            out[i] = res
    return out
