#!/venv/bin/python
"""./run_check.py Cxx [--tier quick|thorough] [--replay file]

Loads checks/<id>.py, runs its run(report, tier) against /repo's current working tree, writes
evidence/<id>.json, prints VIOLATION / KNOWN-FINDING lines.  Exit 0 = held on everything explored,
1 = violation, 2 = harness error (never a verdict)."""
import argparse
import importlib
import json
import os
import sys
import traceback

HERE = os.path.dirname(os.path.abspath(__file__))
REPO = os.environ.get("VERIF_REPO", "/repo")


def main():
    ap = argparse.ArgumentParser()
    ap.add_argument("prop")
    ap.add_argument("--tier", default=os.environ.get("VERIF_TIER", "quick"), choices=["quick", "thorough"])
    ap.add_argument("--replay")
    ap.add_argument("--selftest", action="store_true")
    a = ap.parse_args()
    if os.environ.get("_VERIF_REEXEC") != "1":
        os.environ.update({"_VERIF_REEXEC": "1", "PYTHONHASHSEED": "0", "PYTHONUTF8": "1",
                           "PYTHONDONTWRITEBYTECODE": "1", "WINDPYUTILS_VERIF": "1"})
        os.execv(sys.executable, [sys.executable, "-X", "utf8", "-B"] + sys.argv)
    sys.path.insert(0, HERE)
    sys.path.insert(0, REPO)
    for m in list(sys.modules):
        if m == "windpyutils" or m.startswith("windpyutils."):
            del sys.modules[m]
    import windpyutils
    if not os.path.abspath(windpyutils.__file__).startswith(os.path.abspath(REPO) + "/"):
        print("HARNESS-ERROR: windpyutils imported from %s, not %s" % (windpyutils.__file__, REPO), file=sys.stderr)
        return 2
    from mc.report import Report
    seed = int(os.environ.get("VERIF_SEED", "0") or 0)
    mod = importlib.import_module("checks." + a.prop.lower())
    if a.replay:
        with open(a.replay) as f:
            rec = json.load(f)
        return mod.replay(rec)
    report = Report(a.prop, a.tier, seed)
    try:
        mod.run(report, a.tier)
    except Exception:
        report.harness_error("check crashed:\n" + traceback.format_exc())
    return report.finish()


if __name__ == "__main__":
    sys.exit(main())
