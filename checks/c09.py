"""C09 -- SortedSet / SortedMap stay sorted, duplicate-free and equivalent to set / dict.

Alphabet V = {-1, 0, 0.5, 1, 1.0, 2.5} (1 and 1.0 are the same key; ints and floats mixed).
Initialisers: no argument, None, every list over V of length <= L (quick 2 / thorough 4) -- empty, unsorted,
with repeats -- as a list and as a one-shot iterator; for SortedMap every list of (key, value) pairs with
values {x, y} as a list, as a one-shot iterator and as a dict (later pairs win like dict()).
From every initial state the whole reachable graph of the real object under the complete MutableSet resp.
MutableMapping mutator menu, in lock-step with a builtin set / dict; after every operation the full
observation (iteration, len, membership / lookup of every probe, foreign-typed probes) is compared.

Reference for pop() / popitem(): builtin set.pop() / dict.popitem() remove an arbitrary / the last element,
so the reference is driven with the element the implementation returned, which must be a member
(with its value).
"""
import itertools
import operator

from mc.canon import canon
from mc.seqmc import Spec, Mismatch, explore, observe
from windpyutils.structures.sorted import SortedSet, SortedMap

V = [-1, 0, 0.5, 1, 1.0, 2.5]
VALS = ["x", "y"]
PROBES = V + [-2, 0.75, 3]              # also numbers that are never stored: below, between, above
FOREIGN = ["s", None, (1,)] + [float("nan")]     # NaN: numeric type, but it cannot be ordered against any content
OPERAND_UNIVERSE = [-1, 0, 0.5, 1.0, 2.5]   # operands of the set operators (builtin frozensets over these)
DEFAULT = "dflt"

# the state of a correct implementation is (subset of 5 distinct keys, 1 stored as int or float[, value per key]):
# 3 * 2**4 = 48 sets, 5 * 3**4 = 405 maps.  The caps only stop the search on a tree whose internal state grows
# without bound (e.g. values left behind by __delitem__); hitting one is reported as not exhaustive.
SET_STATE_CAP = 4 * 48 * 4        # x4: the three copy-constructed sources are explored separately
MAP_STATE_CAP = 4 * 405 * 4

INPLACE = {"ior": (operator.ior, "|="), "iand": (operator.iand, "&="),
           "ixor": (operator.ixor, "^="), "isub": (operator.isub, "-=")}
BINARY = {"or": (operator.or_, "|"), "and": (operator.and_, "&"), "xor": (operator.xor, "^"), "sub": (operator.sub, "-")}


def strictly_ascending(xs):
    return all(a < b for a, b in zip(xs, xs[1:]))


def init_class(keys):
    if not keys:
        return "empty"
    if len(set(keys)) < len(keys):
        return "repeated-keys"
    if list(keys) != sorted(keys):
        return "unsorted"
    return "sorted-distinct"


def same_seq(got, exp):
    """equal length and pairwise == (1 == 1.0: the representation of a key is not judged)"""
    return len(got) == len(exp) and all(a == b for a, b in zip(got, exp))


# ------------------------------------------------------------------------------------------------
class SortedSetSpec(Spec):
    name = "SortedSet"

    def __init__(self, max_init_len, operands, sparse=False):
        self.max_init_len = max_init_len
        self.operands = operands
        self.nontrivial_keys = set()
        # sparse mode: look-ups are explicit operations of the menu and nothing but iteration and len() is
        # observed after a step, so that an observation cannot repair (or hide) state left by an earlier one
        self.sparse = sparse
        if sparse:
            self.name = "SortedSet/sparse"

    # ---- initial configurations
    def initials(self):
        yield {"kind": "noarg", "values": []}
        yield {"kind": "none", "values": []}
        for n in range(self.max_init_len + 1):
            for vals in itertools.product(V, repeat=n):
                for kind in ("list", "iter") + (("copy",) if list(vals) in ([], [0], [1, -1]) else ()):
                    yield {"kind": kind, "values": list(vals)}

    def build(self, init):
        vals = init["values"]
        kind = init["kind"]
        self._src = None
        if kind == "noarg":
            r = observe(SortedSet)
        elif kind == "none":
            r = observe(SortedSet, None)
        elif kind == "list":
            r = observe(SortedSet, list(vals))
        elif kind == "copy":
            # the copy-constructor form: the source set must stay what it was, whatever is done to the copy
            src = observe(SortedSet, list(vals))
            if src[0] != "ok":
                raise Mismatch("init-raises", "SortedSet(%r) -> %r" % (vals, src), {"op": "__init__", "init": init_class(vals)})
            self._src = (src[1], sorted(set(vals)))
            r = observe(SortedSet, src[1])
        else:
            r = observe(SortedSet, iter(list(vals)))
        if r[0] != "ok":
            raise Mismatch("init-raises", "%s -> %r; set(%r) == %r" % (self.init_code(init), r, vals, set(vals)),
                           {"op": "__init__", "exc": r[1] if len(r) > 1 else r[0], "init": init_class(vals)})
        return r[1], set(vals)

    def decoy(self):
        d = SortedSet()             # created without initial values, filled afterwards
        d.add(V[-1])
        d.add(V[0])
        return d, lambda x: (canon(x), list(x))

    # ---- menu
    def ops(self, s, model):
        ops = []
        for v in V:
            ops.append(("add", v))
        for v in V:
            ops.append(("discard", v))
        for v in V:
            ops.append(("remove", v))
        ops += [("pop",), ("clear",)]
        if self.sparse:
            for v in V:
                ops.append(("in", v))
            return ops
        for name in ("ior", "isub", "iand", "ixor"):
            for o in self.operands:
                ops.append((name, list(o)))
        for name in ("or", "sub", "and", "xor"):     # results are new SortedSets built from an iterable
            for o in self.operands:
                ops.append((name, list(o)))
        return ops

    def step(self, s, model, op):
        model = set(model)
        kind = op[0]
        if kind == "in":
            r = observe(s.__contains__, op[1])
            if r != ("ok", op[1] in model):
                raise Mismatch("membership", "%r in s -> %r with reference %r" % (op[1], r, sorted(model)),
                               {"present": op[1] in model, "mode": "sparse"})
            return model
        if kind == "add":
            r = observe(s.add, op[1])
            model.add(op[1])
            if r != ("ok", None):
                raise Mismatch("raises", "add(%r) -> %r" % (op[1], r))
        elif kind == "discard":
            r = observe(s.discard, op[1])
            model.discard(op[1])
            if r != ("ok", None):
                raise Mismatch("raises", "discard(%r) -> %r" % (op[1], r))
        elif kind == "remove":
            r = observe(s.remove, op[1])
            if op[1] in model:
                model.remove(op[1])
                want = ("ok", None)
            else:
                want = ("exc", "KeyError")
            if r != want:
                raise Mismatch("result", "remove(%r) -> %r, builtin set: %r" % (op[1], r, want),
                               {"present": want[0] == "ok"})
        elif kind == "pop":
            r = observe(s.pop)
            if not model:
                if r != ("exc", "KeyError"):
                    raise Mismatch("result", "pop() on the empty set -> %r, builtin set: KeyError" % (r,), {"present": False})
            else:
                if r[0] != "ok" or r[1] not in model:
                    raise Mismatch("result", "pop() -> %r, expected a member of %r" % (r, sorted(model)), {"present": True})
                model.remove(r[1])          # the reference is driven with the element the implementation returned
        elif kind == "clear":
            r = observe(s.clear)
            model.clear()
            if r != ("ok", None):
                raise Mismatch("raises", "clear() -> %r" % (r,))
        elif kind in INPLACE:
            fn = INPLACE[kind][0]
            other = frozenset(op[1])
            r = observe(fn, s, other)
            model = fn(model, other)
            if r[0] != "ok":
                raise Mismatch("raises", "s %s %r -> %r with s == %r" % (INPLACE[kind][1], set(other), r, sorted(model)),
                               {"op": "set-operator", "exc": r[1] if len(r) > 1 else r[0]})
            if r[1] is not s:
                raise Mismatch("result", "s %s ... did not return s" % INPLACE[kind][1])
        elif kind in BINARY:
            fn = BINARY[kind][0]
            other = frozenset(op[1])
            before = canon(s)
            r = observe(fn, s, other)
            exp = sorted(fn(model, other))
            if r[0] != "ok":
                raise Mismatch("raises", "s %s %r -> %r, builtin set gives %r" % (BINARY[kind][1], set(other), r, exp),
                               {"op": "set-operator", "exc": r[1] if len(r) > 1 else r[0]})
            got = observe(list, r[1])
            if got[0] != "ok" or not strictly_ascending(got[1]) or not same_seq(got[1], exp):
                raise Mismatch("value-mismatch", "list(s %s %r) -> %r, builtin set gives %r" % (
                    BINARY[kind][1], set(other), got, exp))
            if canon(s) != before:
                raise Mismatch("operand-changed", "s %s %r changed s" % (BINARY[kind][1], set(other)))
        else:
            raise AssertionError(op)
        return model

    # ---- full observation
    def check(self, s, model):
        if getattr(self, "_src", None) is not None:
            got = observe(list, self._src[0])
            if got[0] != "ok" or not same_seq(got[1], self._src[1]):
                raise Mismatch("source-changed", "the set given to SortedSet(...) as initial values now holds %r, it held %r" % (
                    got, self._src[1]), {"init_kind": "copy"})
        exp = sorted(model)
        r = observe(list, s)
        if r[0] != "ok":
            raise Mismatch("iter-raises", "list(s) -> %r" % (r,))
        if not strictly_ascending(r[1]):
            raise Mismatch("not-strictly-ascending", "list(s) == %r" % (r[1],),
                           {"duplicates": any(a == b for a, b in zip(r[1], r[1][1:]))})
        if not same_seq(r[1], exp):
            raise Mismatch("content", "list(s) == %r, sorted(reference set) == %r" % (r[1], exp))
        r = observe(len, s)
        if r != ("ok", len(model)):
            raise Mismatch("len", "len(s) -> %r, reference %d" % (r, len(model)))
        if self.sparse:
            return
        # an iteration that is still open while a second one runs and members are probed (nothing is modified)
        r = observe(lambda: [(x, list(s), x in s) for x in s])
        if r[0] != "ok" or not same_seq([t[0] for t in r[1]], exp) or not all(same_seq(t[1], exp) and t[2] is True for t in r[1]):
            raise Mismatch("content", "[(x, list(s), x in s) for x in s] -> %r with sorted(reference set) == %r" % (r, exp),
                           {"view": "nested-iteration"})
        for p in PROBES:
            r = observe(s.__contains__, p)
            if r != ("ok", p in model):
                raise Mismatch("membership", "%r in s -> %r with list(s) == %r" % (p, r, exp), {"present": p in model})
        before = canon(s)
        for f in FOREIGN:
            r = observe(s.__contains__, f)
            if r != ("ok", False):
                raise Mismatch("foreign-probe", "%r in s -> %r with list(s) == %r, expected False" % (f, r, exp),
                               {"probe": "in", "empty": not model})
            r = observe(s.remove, f)
            if r != ("exc", "KeyError"):
                raise Mismatch("foreign-probe", "s.remove(%r) -> %r with list(s) == %r, expected KeyError" % (f, r, exp),
                               {"probe": "remove", "empty": not model})
            observe(s.discard, f)       # outcome not defined by the statement; only "does not corrupt" is judged
            if canon(s) != before:
                raise Mismatch("foreign-probe", "probing with %r changed the structure: list(s) == %r -> %r" % (
                    f, exp, observe(list, s)), {"probe": "state-changed", "empty": not model})

    def key(self, s, model):
        k = canon(s)
        if getattr(self, "_src", None) is not None:
            k = (k, "copy-of", canon(self._src[0]))      # histories on a copy are explored separately
        if len(model) >= 2:
            self.nontrivial_keys.add(k)     # counted here: explore() does not count initial states
        return k

    def nontrivial(self, s, model):
        return False

    # ---- replay text
    def init_code(self, init):
        k = init["kind"]
        if k == "noarg":
            return "SortedSet()"
        if k == "none":
            return "SortedSet(None)"
        if k == "list":
            return "SortedSet(%r)" % (init["values"],)
        if k == "copy":
            return "SortedSet(src)   # src = SortedSet(%r), which must stay unchanged" % (init["values"],)
        return "SortedSet(iter(%r))" % (init["values"],)

    def snippet(self, init, hist):
        lines = ["from windpyutils.structures.sorted import SortedSet", "s = " + self.init_code(init)]
        for op in hist:
            k = op[0]
            if k in ("add", "discard", "remove"):
                lines.append("s.%s(%r)" % (k, op[1]))
            elif k in ("pop", "clear"):
                lines.append("s.%s()" % k)
            elif k in INPLACE:
                lines.append("s %s %r" % (INPLACE[k][1], set(op[1]) if op[1] else "set()"))
            elif k in BINARY:
                lines.append("print(list(s %s %s))" % (BINARY[k][1], repr(set(op[1])) if op[1] else "set()"))
        lines.append("print(list(s), len(s), [v in s for v in %r], ['s' in s, None in s, (1,) in s])" % (PROBES,))
        return "\n".join(lines).replace("'set()'", "set()")


# ------------------------------------------------------------------------------------------------
class SortedMapSpec(Spec):
    name = "SortedMap"

    def __init__(self, max_init_len, max_update_len, sparse=False):
        self.sparse = sparse
        if sparse:
            self.name = "SortedMap/sparse"
        self.max_init_len = max_init_len
        self.nontrivial_keys = set()
        self.updates = []
        pairs = [(k, v) for k in V for v in VALS]
        seen = set()
        for n in range(max_update_len + 1):
            for ps in itertools.product(pairs, repeat=n):
                self.updates.append(("pairs", [list(p) for p in ps]))
                d = dict(ps)
                rep = repr(list(d.items()))
                if rep not in seen:
                    seen.add(rep)
                    self.updates.append(("dict", [list(p) for p in d.items()]))

    def initials(self):
        yield {"kind": "noarg", "pairs": []}
        yield {"kind": "none", "pairs": []}
        pairs = [(k, v) for k in V for v in VALS]
        seen = set()
        for n in range(self.max_init_len + 1):
            for ps in itertools.product(pairs, repeat=n):
                for kind in ("pairs", "pairs-iter"):
                    yield {"kind": kind, "pairs": [list(p) for p in ps]}
                d = dict(ps)
                rep = repr(list(d.items()))
                if rep not in seen:         # the same dict (same key objects, same order) is built once
                    seen.add(rep)
                    yield {"kind": "dict", "pairs": [list(p) for p in d.items()]}
                    if [list(p) for p in d.items()] in ([], [[0, "x"]], [[1, "x"], [-1, "y"]]):
                        yield {"kind": "copy", "pairs": [list(p) for p in d.items()]}     # SortedMap(SortedMap(...))

    @staticmethod
    def arg(kind, pairs):
        ps = [tuple(p) for p in pairs]
        if kind == "dict":
            d = {}
            for k, v in ps:
                d[k] = v
            return d
        if kind == "pairs-iter":
            return iter(ps)
        return ps

    def build(self, init):
        kind = init["kind"]
        pairs = [tuple(p) for p in init["pairs"]]
        self._src = None
        if kind == "noarg":
            r = observe(SortedMap)
        elif kind == "none":
            r = observe(SortedMap, None)
        elif kind == "copy":
            src = observe(SortedMap, self.arg("dict", pairs))
            if src[0] != "ok":
                raise Mismatch("init-raises", "SortedMap(%r) -> %r" % (dict(pairs), src), {"op": "__init__", "init_kind": "mapping"})
            self._src = (src[1], sorted(dict(pairs).items()))
            r = observe(SortedMap, src[1])
        else:
            r = observe(SortedMap, self.arg(kind, pairs))
        model = dict(pairs)
        if r[0] != "ok":
            raise Mismatch("init-raises", "%s -> %r; dict(...) == %r" % (self.init_code(init), r, model),
                           {"op": "__init__", "exc": r[1] if len(r) > 1 else r[0],
                            "init": init_class([k for k, _ in pairs]),
                            "init_kind": "mapping" if kind == "dict" else "iterable-of-pairs"})
        return r[1], model

    def decoy(self):
        d = SortedMap()             # created without initial values, filled afterwards
        d[V[-1]] = "y"
        d[V[0]] = "x"
        return d, lambda x: (canon(x), list(x.keys_storage) if hasattr(x, "keys_storage") else list(x))

    def ops(self, m, model):
        ops = []
        for k in V:
            for v in VALS:
                ops.append(("set", k, v))
        for k in V:
            ops.append(("del", k))
        for k in V:
            ops.append(("pop", k))
        for k in V:
            ops.append(("popd", k))
        ops += [("popitem",), ("clear",)]
        if self.sparse:
            for k in V:
                ops += [("getitem", k), ("get", k), ("in", k)]
            return ops
        for k in V:
            for v in VALS:
                ops.append(("setdefault", k, v))
        for kind, pairs in self.updates:
            ops.append(("update", kind, pairs))
        return ops

    def step(self, m, model, op):
        model = dict(model)
        kind = op[0]
        if kind in ("getitem", "get", "in"):
            k = op[1]
            present = k in model
            if kind == "getitem":
                r, want = observe(m.__getitem__, k), (("ok", model[k]) if present else ("exc", "KeyError"))
            elif kind == "get":
                r, want = observe(m.get, k, DEFAULT), ("ok", model.get(k, DEFAULT))
            else:
                r, want = observe(m.__contains__, k), ("ok", present)
            if r != want:
                raise Mismatch("lookup" if kind != "in" else "membership", "%s(%r) -> %r, reference %r (items %r)" % (
                    kind, k, r, want, sorted(model.items())), {"present": present, "mode": "sparse"})
            return model
        if kind == "set":
            r = observe(m.__setitem__, op[1], op[2])
            model[op[1]] = op[2]
            if r != ("ok", None):
                raise Mismatch("raises", "m[%r] = %r -> %r" % (op[1], op[2], r))
        elif kind == "del":
            r = observe(m.__delitem__, op[1])
            if op[1] in model:
                del model[op[1]]
                want = ("ok", None)
            else:
                want = ("exc", "KeyError")
            if r != want:
                raise Mismatch("result", "del m[%r] -> %r, builtin dict: %r" % (op[1], r, want), {"present": want[0] == "ok"})
        elif kind in ("pop", "popd"):
            if kind == "pop":
                r = observe(m.pop, op[1])
                want = observe(model.pop, op[1])
            else:
                r = observe(m.pop, op[1], DEFAULT)
                want = observe(model.pop, op[1], DEFAULT)
            if r != want:
                raise Mismatch("result", "m.pop(%r%s) -> %r, builtin dict: %r" % (
                    op[1], "" if kind == "pop" else ", " + repr(DEFAULT), r, want), {"present": want != ("exc", "KeyError") and want != ("ok", DEFAULT)})
        elif kind == "popitem":
            r = observe(m.popitem)
            if not model:
                if r != ("exc", "KeyError"):
                    raise Mismatch("result", "popitem() on the empty map -> %r, builtin dict: KeyError" % (r,), {"present": False})
            else:
                ok = r[0] == "ok" and isinstance(r[1], tuple) and len(r[1]) == 2 and r[1][0] in model \
                     and model[r[1][0]] == r[1][1]
                if not ok:
                    raise Mismatch("result", "popitem() -> %r, expected an item of %r" % (r, sorted(model.items())), {"present": True})
                del model[r[1][0]]      # the reference is driven with the item the implementation returned
        elif kind == "clear":
            r = observe(m.clear)
            model.clear()
            if r != ("ok", None):
                raise Mismatch("raises", "clear() -> %r" % (r,))
        elif kind == "setdefault":
            r = observe(m.setdefault, op[1], op[2])
            want = ("ok", model.setdefault(op[1], op[2]))
            if r != want:
                raise Mismatch("result", "m.setdefault(%r, %r) -> %r, builtin dict: %r" % (op[1], op[2], r, want),
                               {"present": want[1] != op[2]})
        elif kind == "update":
            r = observe(m.update, self.arg(op[1], op[2]))
            model.update(self.arg(op[1], op[2]))
            if r != ("ok", None):
                raise Mismatch("raises", "m.update(%r) -> %r" % (self.arg(op[1], [tuple(p) for p in op[2]]), r))
        else:
            raise AssertionError(op)
        return model

    def check(self, m, model):
        if getattr(self, "_src", None) is not None:
            got = observe(lambda: list(zip(self._src[0].keys_storage, self._src[0].values_storage))
                          if hasattr(self._src[0], "keys_storage") else sorted(self._src[0].items()))
            if got[0] != "ok" or not same_seq([k for k, _ in got[1]], [k for k, _ in self._src[1]]) \
                    or [v for _, v in got[1]] != [v for _, v in self._src[1]]:
                raise Mismatch("source-changed", "the map given to SortedMap(...) as initial values now holds %r, it held %r" % (
                    got, self._src[1]), {"init_kind": "copy"})
        exp_keys = sorted(model)
        exp_items = [(k, model[k]) for k in exp_keys]
        r = observe(list, m)
        if r[0] != "ok":
            raise Mismatch("iter-raises", "list(m) -> %r" % (r,))
        if not strictly_ascending(r[1]):
            raise Mismatch("not-strictly-ascending", "list(m) == %r, sorted(reference dict) == %r" % (r[1], exp_keys),
                           {"duplicates": any(a == b for a, b in zip(r[1], r[1][1:]))})
        if not same_seq(r[1], exp_keys):
            raise Mismatch("content", "list(m) == %r, sorted(reference dict) == %r" % (r[1], exp_keys))
        if self.sparse:
            r = observe(len, m)     # items()/values() look every key up: not in sparse mode
            if r != ("ok", len(model)):
                raise Mismatch("len", "len(m) -> %r, reference %d" % (r, len(model)))
            return
        r = observe(lambda: list(m.items()))
        if r[0] != "ok" or not same_seq(r[1], exp_items):
            raise Mismatch("content", "list(m.items()) -> %r, sorted(reference.items()) == %r" % (r, exp_items), {"view": "items"})
        r = observe(lambda: list(m.keys()))
        if r[0] != "ok" or not same_seq(r[1], exp_keys):
            raise Mismatch("content", "list(m.keys()) -> %r, reference %r" % (r, exp_keys), {"view": "keys"})
        r = observe(lambda: list(m.values()))
        if r[0] != "ok" or not same_seq(r[1], [v for _, v in exp_items]):
            raise Mismatch("content", "list(m.values()) -> %r, reference %r" % (r, [v for _, v in exp_items]), {"view": "values"})
        r = observe(len, m)
        if r != ("ok", len(model)):
            raise Mismatch("len", "len(m) -> %r, reference %d" % (r, len(model)))
        if self.sparse:
            return
        # an iteration that is still open while a second one runs and keys are looked up (nothing is modified)
        r = observe(lambda: [(k, list(m), m[k]) for k in m])
        if r[0] != "ok" or not same_seq([t[0] for t in r[1]], exp_keys) or \
                not all(same_seq(t[1], exp_keys) and t[2] == model[e] for t, e in zip(r[1], exp_keys)):
            raise Mismatch("content", "[(k, list(m), m[k]) for k in m] -> %r with reference items %r" % (r, exp_items),
                           {"view": "nested-iteration"})
        for p in PROBES:
            present = p in model
            want = ("ok", model[p]) if present else ("exc", "KeyError")
            r = observe(m.__getitem__, p)
            if r != want:
                raise Mismatch("lookup", "m[%r] -> %r, reference %r (items %r)" % (p, r, want, exp_items), {"present": present})
            r = observe(m.get, p, DEFAULT)
            if r != ("ok", model.get(p, DEFAULT)):
                raise Mismatch("lookup", "m.get(%r, %r) -> %r, reference %r" % (p, DEFAULT, r, model.get(p, DEFAULT)),
                               {"present": present, "via": "get"})
            r = observe(m.__contains__, p)
            if r != ("ok", present):
                raise Mismatch("membership", "%r in m -> %r (items %r)" % (p, r, exp_items), {"present": present})
        before = canon(m)
        for f in FOREIGN:
            for pname, fn, want in (("in", lambda: f in m, ("ok", False)),
                                    ("getitem", lambda: m[f], ("exc", "KeyError")),
                                    ("get", lambda: m.get(f, DEFAULT), ("ok", DEFAULT)),
                                    ("del", lambda: m.__delitem__(f), ("exc", "KeyError")),
                                    ("pop", lambda: m.pop(f), ("exc", "KeyError")),
                                    ("pop-default", lambda: m.pop(f, DEFAULT), ("ok", DEFAULT))):
                r = observe(fn)
                if r != want:
                    raise Mismatch("foreign-probe", "%s with key %r -> %r, expected %r (items %r)" % (pname, f, r, want, exp_items),
                                   {"probe": pname, "empty": not model})
                if canon(m) != before:
                    raise Mismatch("foreign-probe", "%s with key %r changed the structure: items %r -> %r" % (
                        pname, f, exp_items, observe(lambda: list(m.items()))), {"probe": "state-changed", "empty": not model})

    def key(self, m, model):
        k = canon(m)
        if getattr(self, "_src", None) is not None:
            k = (k, "copy-of", canon(self._src[0]))      # histories on a copy are explored separately
        if len(model) >= 2:
            self.nontrivial_keys.add(k)     # counted here: explore() does not count initial states
        return k

    def nontrivial(self, m, model):
        return False

    def init_code(self, init):
        k = init["kind"]
        ps = [tuple(p) for p in init["pairs"]]
        if k == "noarg":
            return "SortedMap()"
        if k == "none":
            return "SortedMap(None)"
        if k == "dict":
            return "SortedMap({%s})" % ", ".join("%r: %r" % p for p in ps)
        if k == "pairs":
            return "SortedMap(%r)" % (ps,)
        if k == "copy":
            return "SortedMap(src)   # src = SortedMap({%s}), which must stay unchanged" % ", ".join("%r: %r" % p for p in ps)
        return "SortedMap(iter(%r))" % (ps,)

    def snippet(self, init, hist):
        lines = ["from windpyutils.structures.sorted import SortedMap", "m = " + self.init_code(init)]
        for op in hist:
            k = op[0]
            if k == "set":
                lines.append("m[%r] = %r" % (op[1], op[2]))
            elif k == "del":
                lines.append("del m[%r]" % (op[1],))
            elif k == "pop":
                lines.append("m.pop(%r)" % (op[1],))
            elif k == "popd":
                lines.append("m.pop(%r, %r)" % (op[1], DEFAULT))
            elif k in ("popitem", "clear"):
                lines.append("m.%s()" % k)
            elif k == "setdefault":
                lines.append("m.setdefault(%r, %r)" % (op[1], op[2]))
            elif k == "update":
                ps = [tuple(p) for p in op[2]]
                lines.append("m.update(%s)" % ("{%s}" % ", ".join("%r: %r" % p for p in ps) if op[1] == "dict" else repr(ps)))
        lines.append("print(list(m.items()), len(m), [m.get(k) for k in %r])" % (PROBES,))
        return "\n".join(lines)


# ------------------------------------------------------------------------------------------------
def subsets(universe, max_size=None):
    out = []
    for n in range(len(universe) + 1):
        if max_size is not None and n > max_size and n != len(universe):
            continue
        for c in itertools.combinations(universe, n):
            out.append(list(c))
    return out


def run(report, tier):
    quick = tier == "quick"
    max_init_len = 2 if quick else 4
    operands = subsets(OPERAND_UNIVERSE, 2 if quick else None)      # quick: sizes 0,1,2 and the full set; thorough: all 32
    max_update_len = 1 if quick else 2
    report.rule("one state = one distinct canonical object graph of the real SortedSet / SortedMap (ints and floats kept "
                "apart); one transition = one operation of the menu applied in one state (object rebuilt by replaying the "
                "history), each followed by one evaluation = the full observation (iteration strictly ascending and equal "
                "to the sorted builtin reference, len, membership / [] / get of %d numeric probes, views, and the foreign-"
                "typed probes 's', None, (1,) answering absent with the canonical state unchanged); every initialiser "
                "is additionally built and evaluated once; non-trivial = distinct reachable state with >= 2 keys"
                % len(PROBES))
    set_len = max_init_len + (1 if quick else 0)      # a value repeated three times needs length 3

    def mk(which):
        if which == "set":
            return SortedSetSpec(set_len, operands), SET_STATE_CAP
        if which == "map":
            return SortedMapSpec(max_init_len, max_update_len), MAP_STATE_CAP
        if which == "set-sparse":
            return SortedSetSpec(1, [], sparse=True), SET_STATE_CAP * 4
        if which == "set-edge":
            s_ = SortedSetSpec(2, [[], [0]])
            s_.name = "SortedSet/inf-and-2**53"
            return s_, SET_STATE_CAP
        if which == "map-edge":
            m_ = SortedMapSpec(1, 1)
            m_.name = "SortedMap/inf-and-2**53"
            return m_, MAP_STATE_CAP
        if which == "set-big":
            s_ = SortedSetSpec(2, [[], [0]])
            s_.name = "SortedSet/big-ints"
            return s_, SET_STATE_CAP
        if which == "map-big":
            m_ = SortedMapSpec(1, 1)
            m_.name = "SortedMap/big-ints"
            return m_, MAP_STATE_CAP
        return SortedMapSpec(1, 0, sparse=True), MAP_STATE_CAP * 4

    def work(which):
        # one exploration per core; each is a complete, deterministic BFS of its own reachable graph
        from mc.report import Report
        global V, PROBES
        sub = Report("C09", collect_only=True)
        if which.endswith("-big"):
            # ints far beyond the range of a float (and the largest floats): still ordinary, orderable keys
            V = [-(10 ** 400), 0, 1e308, 10 ** 400]
            PROBES = V + [2 ** 1024, -1.5, 10 ** 400 + 1]
        if which.endswith("-edge"):
            # infinities and an int / float pair that differ by less than float precision: exact comparison needed
            V = [float("-inf"), 2.0 ** 53, 2 ** 53 + 1, float("inf")]
            PROBES = V + [2 ** 53, 0, 1e308]
        spec, cap = mk(which)
        n_inits = sum(1 for _ in spec.initials())
        res = explore(spec, sub, max_depth=None, max_states=cap)
        part = sub.cov["parts"][-1]
        part.update(initialisers_built=n_inits, state_cap=cap, alphabet=[repr(v) for v in V])
        if which == "set":
            part.update(max_init_len=set_len, operator_operands=len(operands))
        elif which == "map":
            part.update(max_init_len=max_init_len, values=VALS, update_operands=len(spec.updates), max_update_len=max_update_len)
        if which in ("set", "map"):
            sub.add(evaluations=n_inits, traces_validated_against_impl=n_inits)
            sub.nontrivial_n(len(spec.nontrivial_keys))
        if not res["closed"]:      # only a defective tree gets here (stale internal state makes the graph infinite)
            part["exhaustive"] = False
            part["cap_hit"] = "state cap %d reached: states beyond it were evaluated but not expanded" % cap
            sub.cov["exhaustive"] = False
        return which, res, sub.dump()

    from mc.par import pmap
    results = {}
    for which, res, d in pmap(work, ["map", "set", "map-sparse", "set-sparse", "map-big", "set-big", "map-edge", "set-edge"]):
        results[which] = res
        report.merge(d)
    # anti-vacuity: the reachable graphs must be the complete ones for the alphabet (unless initialisers failed)
    if (results["set"]["states"] < 48 or results["map"]["states"] < 405) and not report.violations and not report.known_hits:
        report.harness_error("C09: fewer distinct states than subsets of the alphabet (%d sets, %d maps): vacuous driver"
                             % (results["set"]["states"], results["map"]["states"]))


def replay(rec):
    print(rec["what"])
    print(rec["replay"].get("snippet"))
    rp = rec["replay"]
    spec = SortedSetSpec(0, []) if rp.get("spec") == "SortedSet" else SortedMapSpec(0, 0)
    hist = [tuple(op) for op in rp.get("history", [])]
    try:
        impl, model = spec.build(rp["init"])
        spec.check(impl, model)
        for op in hist:
            model = spec.step(impl, model, op)
            spec.check(impl, model)
    except Mismatch as m:
        print("REPRODUCED: %s: %s" % (m.kind, m.detail))
        return 1
    print("not reproduced on this tree")
    return 0
