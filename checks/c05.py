"""C05 -- FunctorMap and mul_p_map return map(f, data) in input order, terminate, repeated calls independent.

Engine A: the real pools.py / workers.py / maps.py over the virtual multiprocessing layer; all schedules of
the producer/consumer loop and the worker processes within a preemption bound, plus one spurious `Empty`
(non-blocking get on a multiprocessing.Queue whose feeder thread has not delivered yet) as environment
deviation."""
import collections

from mc import vmp
from checks.poolmc import Kit, run_pool_check, blocked_sig, f, Config as _PoolConfig
from mc import vsched

SRCS = ["windpyutils/parallel/pools.py", "windpyutils/parallel/maps.py", "windpyutils/parallel/workers.py"]


class Cfg:
    def __init__(self, name, kind, workers, calls, cpu_count=2, family=None, required=(), values=False):
        self.name = name
        self.kind = kind              # fmap | mulp
        self.workers = workers        # <=0: cpu_count
        self.calls = list(calls)      # fmap: (input kind, n, chunk size); mulp: (input kind, n)
        self.cpu_count = cpu_count
        self.family = family or kind
        self.required = list(required)
        self.values = values          # items are None / falsy / empty values instead of ints (and f wraps them)

    def describe(self):
        return {"name": self.name, "kind": self.kind, "workers": self.workers, "calls": self.calls,
                "cpu_count": self.cpu_count, "values": self.values}

    def data_of(self, k, n):
        if self.values:
            return [VALUES[(k + j) % len(VALUES)] for j in range(n)]
        return [100 * (k + 1) + j for j in range(n)]

    @property
    def fn(self):
        return wrap if self.values else f


# items a map must treat like any other: None (also what the pools use as their own stop token), falsy and empty ones
# ... and items that are equal but not the same value for f (1 / True / 1.0, 0.0 / -0.0), next to each other in a chunk
VALUES = [1, True, 0.0, -0.0, "", None, 1.0, None, 0, ()]


def wrap(x):
    return ("w", x)


def same_results(got, exp):
    """== would take 1, True and 1.0 (0.0 and -0.0) for the same result"""
    return got is not None and [repr(x) for x in got] == [repr(x) for x in exp]


def make_driver(cfg):
    def driver(s):
        s.user["cpu_count"] = cfg.cpu_count
        out = {"calls": [], "exited": False}
        s.user["out"] = out
        if cfg.kind == "fmap":
            M = vmp.load(SRCS[0], "windpyutils.parallel.pools")
            fm = M.FunctorMap(cfg.fn, cfg.workers)
            with fm:
                suspended = []
                pre = {}
                if any(len(c) > 3 and c[3] == "precreate" for c in cfg.calls):
                    # all call generators are created first (e.g. for itertools.chain), then consumed one after another
                    for k, call in enumerate(cfg.calls):
                        d0 = cfg.data_of(k, call[1])
                        pre[k] = fm(vmp.LazyInput(d0) if call[0] == "lazy" else d0, call[2])
                for k, call in enumerate(cfg.calls):
                    ikind, n, cs = call[:3]
                    exact = len(call) > 3 and call[3] == "exact"
                    data = cfg.data_of(k, n)
                    rec = {"data": data, "yielded": [], "finished": False, "cs": cs}
                    out["calls"].append(rec)
                    inp = vmp.LazyInput(data) if ikind == "lazy" else (collections.deque(data) if ikind == "deque" else data)
                    if exact:
                        # the consumer takes exactly len(data) results (zip / islice style) and never asks for more:
                        # the generator stays suspended at its last yield
                        gen = fm(inp, cs)
                        suspended.append(gen)
                        for _ in range(n):
                            rec["yielded"].append(next(gen))
                    else:
                        for v in (pre[k] if k in pre else fm(inp, cs)):
                            rec["yielded"].append(v)
                    rec["finished"] = True
                    rec["leftover"] = leftovers(s)
        else:
            Wm = vmp.load(SRCS[2], "windpyutils.parallel.workers")
            M = vmp.load(SRCS[1], "windpyutils.parallel.maps", extra_sub={"windpyutils.parallel.workers": Wm})
            for k, call in enumerate(cfg.calls):
                ikind, n = call[:2]
                nworkers = call[2] if len(call) > 2 else cfg.workers      # the worker count may differ per call
                data = cfg.data_of(k, n)
                rec = {"data": data, "yielded": None, "finished": False, "cs": 1}
                out["calls"].append(rec)
                inp = vmp.LazyInput(data) if ikind == "lazy" else (collections.deque(data) if ikind == "deque" else data)
                res = M.mul_p_map(cfg.fn, inp, nworkers)
                rec["yielded"] = list(res)
                rec["finished"] = True
                rec["leftover"] = leftovers(s)
        out["exited"] = True
        return out
    return driver


def leftovers(s):
    left = []
    for q in s.queues:
        for it in q._items:
            if it is not None:
                left.append((q.kind, repr(it)))
    return left


def judge(cfg, r):
    out = r.user.get("out")
    fam = cfg.family
    v = []
    if out is None:
        return [("C05", {"family": fam, "kind": "no-output"}, "driver produced nothing", {})]
    if r.outcome in ("deadlock", "livelock"):
        bs = blocked_sig(r.blocked)
        v.append(("C05", {"family": fam, "kind": r.outcome, "blocked": bs},
                  "%s: %s: blocked %s" % (cfg.name, r.outcome, bs), {"blocked": r.blocked}))
    for k, rec in enumerate(out["calls"]):
        exp = [cfg.fn(x) for x in rec["data"]]
        got = rec["yielded"]
        if rec["finished"]:
            bad = not same_results(got, exp)
        else:
            bad = got is not None and not same_results(got, exp[:len(got)])
        if bad:
            if cfg.values:
                cls = "missing" if len(got) < len(exp) else "other"
            else:
                cls = ("foreign" if any(x not in exp for x in got) else "duplicated" if len(set(got)) != len(got)
                       else "missing" if set(got) != set(exp) else "reordered")
            v.append(("C05", {"family": fam, "kind": "wrong-output", "class": cls, "call": min(k, 1)},
                      "%s: call %d on %r returned %r, expected %r" % (cfg.name, k, rec["data"], got, exp), {}))
        if rec["finished"] and rec.get("leftover"):
            v.append(("C05", {"family": fam, "kind": "leftover", "call": min(k, 1)},
                      "%s: after call %d the queues still hold %r" % (cfg.name, k, rec["leftover"]), {}))
    for role, task, ename, msg, tb in r.exceptions:
        v.append(("C05", {"family": fam, "kind": "thread-exception", "role": role, "exc": ename},
                  "%s: %s died with %s: %s" % (cfg.name, role, ename, msg), {"traceback": tb}))
    if r.outcome == "done" and r.leftover_daemons:
        v.append(("C05", {"family": fam, "kind": "left-running", "blocked": blocked_sig(r.leftover_daemons)},
                  "%s: worker processes still running after the call returned: %s" % (cfg.name, blocked_sig(r.leftover_daemons)), {}))
    return v


def observation(cfg, r):
    out = r.user.get("out") or {"calls": []}
    return (r.outcome, tuple((tuple(c["yielded"] or ()), c["finished"]) for c in out["calls"]),
            blocked_sig(r.blocked) if r.blocked else "")


KIT = Kit(make_driver, judge, observation, SRCS)


def plan_for(tier):
    q = tier == "quick"
    b = 3 if q else 4
    plan = []
    # FunctorMap: W x n x cs, one and two calls
    plan.append((Cfg("FM[w1,n2,cs1]", "fmap", 1, [("list", 2, 1)]), None, 1, None))
    plan.append((Cfg("FM[w2,n3,cs1]", "fmap", 2, [("list", 3, 1)], required=[r"_results_queue\.get\(False\)"]), b, 1, None))
    plan.append((Cfg("FM[w2,n4,cs2]", "fmap", 2, [("list", 4, 2)]), b, 1, None))
    plan.append((Cfg("FM[w3,n2,cs1]", "fmap", 3, [("list", 2, 1)]), 2 if q else 3, 1, None))
    plan.append((Cfg("FM[w2,n0]", "fmap", 2, [("list", 0, 1)]), b, 1, None))
    plan.append((Cfg("FM[w2,lazy3]", "fmap", 2, [("lazy", 3, 1)]), 2 if q else 3, 1, None))
    plan.append((Cfg("FM2[w2,n2;n2]", "fmap", 2, [("list", 2, 1), ("list", 2, 1)]), b, 1, None))
    plan.append((Cfg("FM2[w1,n1;n0;n3cs2]", "fmap", 1, [("list", 1, 1), ("list", 0, 1), ("list", 3, 2)]), b, 1, None))
    plan.append((Cfg("FM2x[w2,n2 exact;n2]", "fmap", 2, [("list", 2, 1, "exact"), ("list", 2, 1)]), b, 1, None))
    plan.append((Cfg("FM2x[w1,n3cs2 exact;n1;n2]", "fmap", 1, [("list", 3, 2, "exact"), ("list", 1, 1), ("list", 2, 1, "exact")]), b, 1, None))
    plan.append((Cfg("FM2p[w2,n2;n3cs2 precreated]", "fmap", 2, [("list", 2, 1, "precreate"), ("list", 3, 2, "precreate")]), b, 1, None))
    plan.append((Cfg("FMv[w2,n6,cs2;n3,cs3]", "fmap", 2, [("list", 6, 2), ("list", 3, 3)], values=True), 1, 1, None))
    plan.append((Cfg("FMd[w2,deque3,cs2]", "fmap", 2, [("deque", 3, 2)]), 1, 1, None))
    plan.append((Cfg("FM[cpu,n2]", "fmap", -1, [("list", 2, 1)], cpu_count=2), 2, 1, None))
    # mul_p_map: W x n, consecutive calls on the shared class-level queues
    plan.append((Cfg("MP[w1,n2]", "mulp", 1, [("list", 2)], cpu_count=1), None if not q else 3, 1, None))
    plan.append((Cfg("MP[w2,n3]", "mulp", 2, [("list", 3)]), b, 1, None))
    plan.append((Cfg("MP[w2,n1]", "mulp", 2, [("list", 1)]), b, 1, None))
    plan.append((Cfg("MP[w2,n0]", "mulp", 2, [("list", 0)]), b, 1, None))
    plan.append((Cfg("MP2[w2,n2;n2]", "mulp", 2, [("list", 2), ("list", 2)]), 2 if q else 3, 1, None))
    # consecutive calls with different worker counts (fewer items than workers, then fewer workers)
    plan.append((Cfg("MP2[w2:n1;w1:n2]", "mulp", 2, [("list", 1, 2), ("list", 2, 1)]), 2 if q else 3, 1, None))
    plan.append((Cfg("MP3[w3:n1;w2:n2;w1:n1]", "mulp", 3, [("list", 1, 3), ("list", 2, 2), ("list", 1, 1)], cpu_count=3), 1 if q else 2, 1, None))
    plan.append((Cfg("MPv[w2,n3]", "mulp", 2, [("list", 3)], values=True), b, 1, None))
    plan.append((Cfg("MPd[w2,deque2]", "mulp", 2, [("deque", 2)]), b, 1, None))
    # more workers than CPUs (the shared work queue holds cpu_count items) and more items than the queue holds
    plan.append((Cfg("MP[w2,n3,cpu1]", "mulp", 2, [("list", 3)], cpu_count=1), b, 1, None))
    plan.append((Cfg("MP[w3,n3,cpu2]", "mulp", 3, [("lazy", 3)], cpu_count=2), 1 if q else 2, 1, None))
    plan.append((Cfg("MP[cpu,n2]", "mulp", -1, [("lazy", 2)], cpu_count=2), 2 if q else 3, 1, None))
    grid = []
    if not q:
        for w in (1, 2, 3):
            for n in (0, 1, 2, 3):
                for cs in (1, 2):
                    if n == 0 and cs == 2:
                        continue
                    grid.append((Cfg("FMG[w%d,n%d,cs%d]" % (w, n, cs), "fmap", w, [("list", n, cs)], family="fmap-grid"), 3, 1, 300000))
        for w in (1, 2):
            for n in (0, 1, 2, 3):
                grid.append((Cfg("MPG[w%d,n%d]" % (w, n), "mulp", w, [("list", n)], family="mulp-grid"), 3, 1, 300000))
    return plan, grid


def run(report, tier):
    plan, grid = plan_for(tier)
    run_pool_check(report, "C05", plan, kit=KIT, what="pools.py / maps.py / workers.py", grid=grid or None)
    report.assume("a non-blocking get() on a multiprocessing.Queue may report Empty although an item was put (feeder thread): "
                  "explored as an environment deviation (<= 1 per execution)")


def replay(rec):
    rp = rec["replay"]
    c = rp["config"]
    cfg = Cfg(c["name"], c["kind"], c["workers"], [tuple(x) for x in c["calls"]], c["cpu_count"], values=c.get("values", False))
    from mc.par import pin_self
    pin_self()
    racy = {(tuple(a), b) for a, b in rp["racy"]}
    s = vsched.Scheduler(rp["choices"], None, None, racy, record_trace=True)
    r = s.run(make_driver(cfg))
    print("\n".join(r.trace))
    print("outcome:", r.outcome, "blocked:", r.blocked)
    bad = judge(cfg, r)
    for v in bad:
        print("VIOLATION", v[1], v[2])
    return 1 if bad else 0
