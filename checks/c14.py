"""C14 -- TextFileStorage: what is stored under an id is what any process reads back.

Engine A over the real storage.py: Manager().list / Value / RLock are virtual shared objects, writer and
reader processes are fork copies of the storage made before open(); `open` and `print` of the module are
harness wrappers around the REAL file operations (scratch directory in /dev/shm) with scheduling points at
open, at the writer's print+flush and at the reader's readline.  Oracles are functions of the
happens-before trace (vector clocks), see DESIGN.md §5/C14."""
import glob
import itertools
import os
import shutil

from mc import vmp, vsched
from mc.vsched import Op, VObj, cur
from checks.poolmc import Kit, run_pool_check, blocked_sig, Log

SRC = "windpyutils/parallel/storage.py"
RUNID = os.environ.get("VERIF_C14_RUNID") or str(os.getpid())
os.environ["VERIF_C14_RUNID"] = RUNID
_counter = [0]


def scratch_dir():
    _counter[0] += 1
    d = "/dev/shm/verif-c14-%s-%d/%d" % (RUNID, os.getpid(), _counter[0])
    os.makedirs(d)
    return d


def file_obj(s, path):
    key = os.path.basename(path)
    o = s.files.get(key)
    if o is None:
        o = VObj.__new__(VObj)
        o.vname = ("file", key)
        o.kind = "file"
        o.hint = key
        o.w_hash = hash(("new", o.vname))
        o.r_hashes = []
        o.w_vc = {}
        o.r_vc = {}
        s.files[key] = o
    return o


class FileProxy:
    def __init__(self, f, path):
        self._f = f
        self._path = path

    def readline(self, *a):
        s = cur()
        s.point(Op("readline", file_obj(s, self._path), False))
        return self._f.readline(*a)

    def flush(self):
        s = cur()
        s.point(Op("flush", file_obj(s, self._path), True))
        return self._f.flush()

    def write(self, data):
        s = cur()
        s.point(Op("write", file_obj(s, self._path), True))
        return self._f.write(data)

    def close(self):
        if not self._f.closed and self._f.writable():
            s = cur()
            s.point(Op("close", file_obj(s, self._path), True))      # closing flushes buffered data
        return self._f.close()

    def __getattr__(self, name):
        return getattr(self._f, name)

    def __deepcopy__(self, memo):
        # fork() with an open file: the child's file object refers to the SAME open file description (shared
        # offset).  Modelled with a dup()ed descriptor; the user-space buffer is not carried over (the storage seeks
        # before every read and flushes after every write, so nothing is lost by that).
        f = self._f
        if f.closed:
            return FileProxy(f, self._path)
        if f.writable():
            f.flush()
        nf = os.fdopen(os.dup(f.fileno()), f.mode, encoding=getattr(f, "encoding", None))
        return FileProxy(nf, self._path)


def traced_open(path, mode="r", *a, **kw):
    s = cur()
    s.point(Op("open:" + mode, file_obj(s, path), "w" in mode or "a" in mode))
    return FileProxy(open(path, mode, *a, **kw), path)


def traced_print(*args, file=None, flush=False, **kw):
    if isinstance(file, FileProxy):
        s = cur()
        s.point(Op("print", file_obj(s, file._path), True))
        print(*args, file=file._f, flush=flush, **kw)
    else:
        print(*args, file=file, flush=flush, **kw)


def text_of(w, g, k=0, wide=False):
    base = "w%s:%d%s" % (w, g, "" if k == 0 else "#%d" % k)
    if not wide:
        return base
    # "all single-line texts": the empty text, leading / trailing blanks, characters of 2, 3 and 4 bytes in UTF-8
    # (character offsets differ from byte offsets)
    if g % 3 == 0:
        return "" if (w == 0 and k == 0) else "\U0001d11e" + base
    if g % 3 == 1:
        return "  \u00e9 " + base + "  "
    return "\t" + base + "\u20ac"


class Cfg:
    def __init__(self, name, writers, reads, presize=None, reader="process", sequential=False, family=None,
                 after_flush=(), required=(), parent_ids=(), after_flush_by="parent", open_before_fork=False, long_reader=False,
                 wide=False):
        self.name = name
        self.wide = wide                              # texts: empty, blanks at both ends, multi-byte characters
        self.writers = [list(w) for w in writers]     # per writer: ids to store, in order
        self.reads = list(reads)                      # ids the reader asks for, in order
        self.presize = presize
        self.reader = reader                          # process | parent | none
        self.sequential = sequential                  # writers run to completion one after another
        self.family = family or ("seq" if sequential else "conc")
        self.after_flush = list(after_flush)          # ids the parent stores after close()+flush()
        self.parent_ids = list(parent_ids)            # ids the parent itself stores first (then closes)
        self.after_flush_by = after_flush_by          # parent | process: who stores after the flush (the parent then only reads)
        self.long_reader = long_reader                # a reader process forked before flush() that is still used afterwards
        self.open_before_fork = open_before_fork      # the parent opens the storage for writing, THEN the writers are forked
        self.required = list(required)
        self.workers = len(self.writers)

    def describe(self):
        return {"name": self.name, "writers": self.writers, "reads": self.reads, "presize": self.presize,
                "reader": self.reader, "sequential": self.sequential, "after_flush": self.after_flush, "parent_ids": self.parent_ids,
                "after_flush_by": self.after_flush_by, "open_before_fork": self.open_before_fork,
                "long_reader": self.long_reader, "wide": self.wide}


def make_driver(cfg):
    def driver(s):
        d = scratch_dir()
        out = {"dir": d, "quiescent": None, "flush": None}
        s.user["out"] = out
        try:
            M = vmp.load(SRC, "windpyutils.parallel.storage", extra_globals={"open": traced_open, "print": traced_print})
            st = M.TextFileStorage(d, number_of_data=cfg.presize)
            log = Log()
            out["log"] = log

            class Writer(vmp.Process):
                def __init__(self, st, wi, ids):
                    super().__init__()
                    self.st, self.wi, self.ids = st, wi, ids

                def run(self):
                    seen = {}
                    try:
                        for g in self.ids:
                            k = seen.get(g, 0)
                            seen[g] = k + 1
                            log.add(self.wi, "store-start", g)
                            try:
                                self.st[g] = text_of(self.wi, g, k, cfg.wide)
                                log.add(self.wi, "store-ok", (g, text_of(self.wi, g, k, cfg.wide)))
                            except ValueError:
                                log.add(self.wi, "store-dup", g)
                    finally:
                        self.st.close()

            def do_reads(storage, who):
                for g in cfg.reads:
                    log.add(who, "read-start", g)
                    try:
                        val = storage[g]
                    except IndexError:
                        val = None
                    log.add(who, "read", (g, val))

            class Reader(vmp.Process):
                def __init__(self, st):
                    super().__init__()
                    self.st = st

                def run(self):
                    try:
                        do_reads(self.st, "R")
                    finally:
                        self.st.close()

            if cfg.parent_ids:
                for g in cfg.parent_ids:
                    st[g] = text_of("P", g, 0, cfg.wide)
                    log.add("P", "store-ok", (g, text_of("P", g, 0, cfg.wide)))
                st.close()
            if cfg.open_before_fork:
                st.open()       # all writers inherit this one open file (shared offset), like `with storage:` around a pool
            lr = None
            if cfg.long_reader:
                ev_flushed = vmp.Event()

                class LongReader(vmp.Process):
                    def __init__(self, st):
                        super().__init__()
                        self.st = st

                    def run(self):
                        ev_flushed.wait()           # the parent has flushed and a new writer has stored a second round
                        self.st.reader_only = True
                        with self.st:
                            out["long_reader"] = observe_all(self.st)
                lr = LongReader(st)
                lr.start()
            ws = [Writer(st, i, ids) for i, ids in enumerate(cfg.writers)]
            rd = Reader(st) if cfg.reader == "process" and cfg.reads else None
            if cfg.sequential:
                for w in ws:
                    w.start()
                    w.join()
                    snapshot(st, log, "after-writer")
                if rd is not None:
                    rd.start()
                    rd.join()
            else:
                for w in ws:
                    w.start()
                if rd is not None:
                    rd.start()
                if cfg.reader == "parent" and cfg.reads:
                    st.reader_only = True
                    with st:
                        do_reads(st, "P")
                for w in ws:
                    w.join()
                if rd is not None:
                    rd.join()
            if cfg.open_before_fork:
                st.close()
            st.reader_only = True
            with st:
                out["quiescent"] = observe_all(st)
            st.reader_only = False
            st.close()
            st.flush()
            log.add("P", "flushed")
            fl = {"listdir": sorted(os.listdir(d)), "len": safe(lambda: len(st)), "list": safe(lambda: list(st)),
                  "lookup0": safe(lambda: st[0]), "contiguous": safe(st.is_contiguous)}
            if cfg.after_flush:
                res = []
                if cfg.after_flush_by == "process":
                    # a new writer process stores the second round; the parent stays a pure reader across the flush
                    w2 = Writer(st, "A", cfg.after_flush)
                    w2.start()
                    w2.join()
                    res = [("ok", None)] * len(cfg.after_flush)
                else:
                    for g in cfg.after_flush:
                        res.append(safe(lambda: st.__setitem__(g, text_of("P", g, 0, cfg.wide))))
                st.close()
                st.reader_only = True
                with st:
                    fl["after"] = observe_all(st)
                fl["after_stores"] = res
                st.reader_only = False
                st.close()
                if lr is not None:
                    ev_flushed.set()
                    lr.join()
                    fl["long_reader"] = out.get("long_reader")
                st.flush()
                fl["listdir2"] = sorted(os.listdir(d))
            out["flush"] = fl
        finally:
            shutil.rmtree(d, ignore_errors=True)
        return out
    return driver


def safe(fn):
    try:
        return ("ok", fn())
    except vsched.Abort:
        raise
    except Exception as e:   # noqa
        return ("exc", type(e).__name__)


def observe_all(st, ids=range(0, 6)):
    each = {}
    for g in ids:
        each[g] = safe(lambda: st[g])
    def nested():
        # an iteration that is still open while every id is looked up and a second iteration runs in between
        out = []
        for t in st:
            out.append((t, [safe(lambda: st[g]) for g in ids], list(st)))
        return out
    return {"len": safe(lambda: len(st)), "contiguous": safe(st.is_contiguous), "list": safe(lambda: list(st)),
            "each": each, "nested": safe(nested)}


def snapshot(st, log, kind):
    st.reader_only = True
    with st:
        log.add("P", "snapshot", observe_all(st))
    st.reader_only = False
    st.close()


# ---------------------------------------------------------------------------------------------------

def judge(cfg, r):
    out = r.user.get("out")
    fam = cfg.family
    v = []
    if out is None or "log" not in out:
        return [("C14", {"family": fam, "kind": "no-output"}, "%s: driver produced nothing" % cfg.name, {})]
    if r.outcome in ("deadlock", "livelock"):
        bs = blocked_sig(r.blocked)
        v.append(("C14", {"family": fam, "kind": r.outcome, "blocked": bs}, "%s: %s: %s" % (cfg.name, r.outcome, bs), {}))
    for role, task, ename, msg, tb in r.exceptions:
        v.append(("C14", {"family": fam, "kind": "thread-exception", "role": role, "exc": ename},
                  "%s: %s died with %s: %s" % (cfg.name, role, ename, msg), {"traceback": tb}))
    log = out["log"].entries
    for i, e in enumerate(log):
        if e[3] == "flushed":
            log = log[:i]           # the second round (after flush) is judged through out["flush"]["after"]
            break
    oks = {}           # g -> list of (entry, text)
    attempts = {}
    for e in log:
        if e[3] == "store-ok":
            oks.setdefault(e[4][0], []).append(e)
        if e[3] in ("store-ok", "store-dup"):
            g = e[4][0] if e[3] == "store-ok" else e[4]
            attempts.setdefault(g, []).append(e)
    complete = r.outcome == "done" and not r.exceptions
    # exactly one store per id succeeds
    for g, es in attempts.items():
        n_ok = sum(1 for e in es if e[3] == "store-ok")
        if complete and n_ok != 1:
            v.append(("C14", {"family": fam, "kind": "duplicate-store", "n_ok": min(n_ok, 2)},
                      "%s: %d stores under id %d, %d succeeded (exactly one must; the others raise ValueError)" % (
                          cfg.name, len(es), g, n_ok), {}))
    # concurrent reads
    pending_start = {}
    for e in log:
        if e[3] == "read-start":
            pending_start[e[0]] = e
        elif e[3] == "read":
            g, val = e[4]
            st_e = pending_start.get(e[0])
            texts = [x[4][1] for x in oks.get(g, [])]
            all_texts = {text_of(w, g, k, cfg.wide) for w in list(range(len(cfg.writers))) + ["P", "A"] for k in range(3)}
            if val is None:
                # IndexError is wrong only if a successful store of g happens-before the start of this read
                for x in oks.get(g, []):
                    if st_e is not None and st_e[5].get(x[1], 0) > x[6]:
                        v.append(("C14", {"family": fam, "kind": "read-missing"},
                                  "%s: read of id %d raised IndexError although the store had returned before the "
                                  "read started (happens-before)" % (cfg.name, g), {}))
                        break
            elif val not in all_texts:
                cls = "empty" if val == "" else ("partial" if any(t.startswith(val) for t in all_texts) else "foreign")
                v.append(("C14", {"family": fam, "kind": "wrong-read", "class": cls},
                          "%s: read of id %d returned %r (stored texts for this id: %r)" % (cfg.name, g, val, texts), {}))
            elif complete and val not in texts:
                v.append(("C14", {"family": fam, "kind": "wrong-read", "class": "loser"},
                          "%s: read of id %d returned %r, but the store that succeeded wrote %r" % (cfg.name, g, val, texts), {}))
    # snapshots between sequential writers and the quiescent state
    if complete:
        stored_so_far = {}
        for e in log:
            if e[3] == "store-ok":
                stored_so_far[e[4][0]] = e[4][1]
            elif e[3] == "snapshot":
                v.extend(check_obs(cfg, e[4], dict(stored_so_far), "after a writer"))
        stored = {g: es[0][4][1] for g, es in oks.items() if es}
        if out["quiescent"] is not None:
            v.extend(check_obs(cfg, out["quiescent"], stored, "at quiescence"))
        fl = out["flush"]
        if fl is not None:
            bad = []
            if fl["listdir"]:
                bad.append("files left: %r" % fl["listdir"])
            if fl["len"] != ("ok", 0):
                bad.append("len %r" % (fl["len"],))
            if fl["list"] != ("ok", []):
                bad.append("iteration %r" % (fl["list"],))
            if fl["lookup0"] != ("exc", "IndexError"):
                bad.append("lookup %r" % (fl["lookup0"],))
            if bad:
                v.append(("C14", {"family": fam, "kind": "flush"}, "%s: after close()+flush(): %s" % (cfg.name, "; ".join(bad)), {}))
            if "after" in fl:
                if any(x != ("ok", None) for x in fl["after_stores"]):
                    v.append(("C14", {"family": fam, "kind": "flush-not-reset", "how": "store-raises"},
                              "%s: storing %r after close()+flush() -> %r" % (cfg.name, cfg.after_flush, fl["after_stores"]), {}))
                else:
                    exp = {g: text_of("A" if cfg.after_flush_by == "process" else "P", g, 0, cfg.wide) for g in cfg.after_flush}
                    for item in check_obs(cfg, fl["after"], exp, "after flush + new stores"):
                        v.append(("C14", dict(item[1], kind="flush-not-reset"), item[2], {}))
                    if fl.get("long_reader") is not None:
                        for item in check_obs(cfg, fl["long_reader"], exp, "seen by a reader process forked before the flush, after "
                                              "flush + new stores"):
                            v.append(("C14", dict(item[1], kind="flush-not-reset", who="older-process"), item[2], {}))
                if fl.get("listdir2"):
                    v.append(("C14", {"family": fam, "kind": "flush"}, "%s: second flush left %r" % (cfg.name, fl["listdir2"]), {}))
    return v


def check_obs(cfg, obs, stored, when):
    v = []
    fam = cfg.family
    n = len(stored)
    if obs["len"] != ("ok", n):
        v.append(("C14", {"family": fam, "kind": "len"}, "%s: %s len() -> %r, %d ids stored" % (cfg.name, when, obs["len"], n), {}))
    contig = set(stored) == set(range(n))
    if obs["contiguous"] != ("ok", contig):
        v.append(("C14", {"family": fam, "kind": "is_contiguous"},
                  "%s: %s is_contiguous() -> %r with ids %r" % (cfg.name, when, obs["contiguous"], sorted(stored)), {}))
    exp = [stored[g] for g in sorted(stored)]
    if obs["list"] != ("ok", exp):
        v.append(("C14", {"family": fam, "kind": "iteration", "gaps": not contig},
                  "%s: %s list(storage) -> %r, expected %r (ids %r)" % (cfg.name, when, obs["list"], exp, sorted(stored)), {}))
    if "nested" in obs and obs["list"] == ("ok", exp):
        lookups = [(("ok", stored[g]) if g in stored else ("exc", "IndexError")) for g in obs["each"]]
        if obs["nested"] != ("ok", [(t, lookups, exp) for t in exp]):
            v.append(("C14", {"family": fam, "kind": "iteration", "nested": True},
                      "%s: %s an iteration interleaved with look-ups of every id and a second iteration -> %r, expected every "
                      "one of %r with the same look-ups and inner list" % (cfg.name, when, obs["nested"], exp), {}))
    for g, res in obs["each"].items():
        want = ("ok", stored[g]) if g in stored else ("exc", "IndexError")
        if res != want:
            v.append(("C14", {"family": fam, "kind": "lookup"},
                      "%s: %s storage[%d] -> %r, expected %r" % (cfg.name, when, g, res, want), {}))
            break
    return v


def observation(cfg, r):
    out = r.user.get("out") or {}
    log = out.get("log")
    reads = tuple(e[4] for e in log.entries if e[3] == "read") if log else ()
    dups = tuple(sorted((e[2], e[4]) for e in log.entries if e[3] == "store-dup")) if log else ()
    return (r.outcome, reads, dups, blocked_sig(r.blocked) if r.blocked else "")


KIT = Kit(make_driver, judge, observation, SRC)


def plan_for(tier):
    q = tier == "quick"
    b = 2 if q else 3
    plan = []
    grid = []
    PRINT = r"print\(data, file=self\._file"
    # concurrent: two writers + reader process; every assignment over ids {0,1,2} is covered by a few sharp shapes
    plan.append((Cfg("K1[w0:0|w1:1|R:0,1,0,1]", [[0], [1]], [0, 1, 0, 1], required=[PRINT]), b, 0, None))
    plan.append((Cfg("K2[w0:1|w1:0|R:0,1] presized", [[1], [0]], [0, 1], presize=3), b, 0, None))
    plan.append((Cfg("K3[same id]", [[0], [0]], [0, 0]), b, 0, None))
    plan.append((Cfg("K4[gap w0:2|w1:0|R:2,0,1]", [[2], [0]], [2, 0, 1]), b, 0, None))
    plan.append((Cfg("K5[w0:0,1|w1:2,1|R:1,2]", [[0, 1], [2, 1]], [1, 2]), 1 if q else 2, 0, None))
    plan.append((Cfg("K6[parent reads]", [[0], [1]], [1, 0, 1], reader="parent"), b, 0, None))
    plan.append((Cfg("K7[one writer, reader]", [[1, 0]], [0, 1, 0]), None, 0, None))
    # the text alphabet: empty text, blanks at both ends, multi-byte characters (byte offsets != character offsets)
    plan.append((Cfg("Kwide[w0:0,1|w1:2,0|R:0,1,2]", [[0, 1], [2, 0]], [0, 1, 2], wide=True), 1 if q else 2, 0, None))
    plan.append((Cfg("Swide[[0,1,2],[3]]", [[0, 1, 2], [3]], [0, 1, 2, 3], sequential=True, after_flush=[1, 0], wide=True), 0, 0, None))
    if not q:
        ids = [0, 1, 2]
        k = 0
        for a in itertools.chain.from_iterable(itertools.permutations(ids, n) for n in (1, 2)):
            for c in itertools.chain.from_iterable(itertools.permutations(ids, n) for n in (1, 2)):
                if a > c:
                    continue
                k += 1
                reads = sorted(set(a) | set(c))
                grid.append((Cfg("KG%d[w0:%s|w1:%s]" % (k, a, c), [list(a), list(c)], reads * 2, family="conc-grid",
                                 presize=3 if k % 2 else None), 2, 0, 120000))
    # sequential: arrival orders over ids {0..3} with gaps / duplicates / pre-sized index, one or two processes in turn
    k = 0
    idsets = [0, 1, 2, 3] if not q else [0, 1, 2, 3]
    for n in (1, 2, 3):
        for order in itertools.permutations(idsets, n):
            if q and n == 3 and order[0] > order[1] > order[2]:
                pass
            for split in range(0, n + 1 if n > 1 else 1):
                if split == n:
                    continue
                ws = [list(order[:split]), list(order[split:])] if split else [list(order)]
                k += 1
                if q and n == 3 and k % 3:
                    continue
                grid.append((Cfg("S%d%s" % (k, ws), ws, sorted(set(order)) + [5], presize=(4 if k % 4 == 0 else None),
                                 sequential=True, after_flush=([1, 0] if k % 5 == 0 else [])), 0, 0, None))
    plan.append((Cfg("Sdup[[0,1,0],[1,2]]", [[0, 1, 0], [1, 2]], [0, 1, 2], sequential=True, after_flush=[0]), 0, 0, None))
    plan.append((Cfg("Sflush[[2],[0]]", [[2], [0]], [0, 2], sequential=True, after_flush=[0, 2, 1]), 0, 0, None))
    plan.append((Cfg("Spar[P:0|[1]]", [[1]], [0, 1], sequential=True, parent_ids=[0], after_flush=[0]), 0, 0, None))
    plan.append((Cfg("Sround2[[0,1]|A:1,0]", [[0, 1]], [0, 1], sequential=True, after_flush=[1, 0], after_flush_by="process"), 0, 0, None))
    plan.append((Cfg("Sround2[[1],[0]|A:0,2]", [[1], [0]], [0, 1], sequential=True, after_flush=[0, 2], after_flush_by="process"), 0, 0, None))
    plan.append((Cfg("Slong[[0,1]|flush|A:0,1|reader forked before]", [[0, 1]], [0], sequential=True, after_flush=[0, 1],
                     after_flush_by="process", long_reader=True), 0, 0, None))
    plan.append((Cfg("Slong[[2],[0]|flush|A:1|reader forked before]", [[2], [0]], [], sequential=True, after_flush=[1],
                     after_flush_by="process", long_reader=True), 0, 0, None))
    plan.append((Cfg("Kshared[open before fork|w0:0,2|w1:1|R]", [[0, 2], [1]], [1, 0, 2], open_before_fork=True), b, 0, None))
    plan.append((Cfg("Sshared[open before fork|[1,0],[2]]", [[1, 0], [2]], [0, 1, 2], sequential=True, open_before_fork=True), 0, 0, None))
    plan.append((Cfg("Kround2[w0:0|w1:1|R|A:0,1]", [[0], [1]], [0, 1], after_flush=[0, 1], after_flush_by="process"), b, 0, None))
    plan.append((Cfg("Spar[P:1,0|[]]", [], [0, 1], sequential=True, parent_ids=[1, 0], after_flush=[1]), 0, 0, None))
    plan.append((Cfg("Kpar[P:0|w0:1|R]", [[1]], [0, 1, 0], parent_ids=[0], after_flush=[0]), b, 0, None))
    # the parent has written (and closed) before it forks TWO writers: they must not both append to the parent's file
    plan.append((Cfg("Kpar2[P:0|w0:1|w1:2|R]", [[1], [2]], [1, 2, 0], parent_ids=[0]), b, 0, None))
    plan.append((Cfg("Spar2[P:0|[1,3],[2]]", [[1, 3], [2]], [0, 1, 2, 3], sequential=True, parent_ids=[0]), 0, 0, None))
    return plan, grid


def run(report, tier):
    try:
        plan, grid = plan_for(tier)
        run_pool_check(report, "C14", plan, kit=KIT, what="storage.py", grid=grid or None)
    finally:
        for d in glob.glob("/dev/shm/verif-c14-%s-*" % RUNID):
            shutil.rmtree(d, ignore_errors=True)
    report.assume("print(data, file=f, flush=True) of a short line reaches the file as one write (modelled as atomic)")
    report.assume("processes are fork copies made before open(); real files in /dev/shm carry the data")


def replay(rec):
    rp = rec["replay"]
    c = rp["config"]
    cfg = Cfg(c["name"], c["writers"], c["reads"], c["presize"], c["reader"], c["sequential"], after_flush=c["after_flush"],
              parent_ids=c.get("parent_ids", ()), after_flush_by=c.get("after_flush_by", "parent"),
              open_before_fork=c.get("open_before_fork", False), long_reader=c.get("long_reader", False))
    from mc.par import pin_self
    pin_self()
    racy = {(tuple(a), b) for a, b in rp["racy"]}
    s = vsched.Scheduler(rp["choices"], None, None, racy, record_trace=True)
    r = s.run(make_driver(cfg))
    print("\n".join(r.trace))
    print("outcome:", r.outcome, "blocked:", r.blocked)
    bad = judge(cfg, r)
    for v in bad:
        print("VIOLATION", v[1], v[2])
    for d in glob.glob("/dev/shm/verif-c14-%s-*" % RUNID):
        shutil.rmtree(d, ignore_errors=True)
    return 1 if bad else 0
