"""Driver plans for C01-C04 (see DESIGN.md §5).  Each entry: (Config, preemption bound | None = unbounded,
env-deviation bound, max executions | None)."""
from checks.poolmc import Config as C

RQ_CLEAR = r"run_event\.clear\(\)"
RQ_SET = r"run_event\.set\(\)"
FULL = r"except queue\.Full"
REPUT = r"^\s+self\.results_queue\.put\(res\)\s*$"
RETIRE = r"replace_queue\.put\(self\.wid\)"
REPLACE = r"procs\[replace_index\]\.start\(\)"
TOKEN = r"return \[\], \[\]"


def P1():
    return C("P1", workers=1, calls=[("imap", "list", 2, 1)], required=[TOKEN])


def P2():
    return C("P2", workers=2, calls=[("imap", "list", 3, 1)])


def P3(n=3):
    return C("P3", workers=2, wq=None, rq=1, calls=[("imap", "lazy", n, 1)], required=[RQ_CLEAR, RQ_SET, FULL, REPUT])


def P4():
    return C("P4", workers=1, calls=[("imap", "list", 1, 1), ("imap", "list", 0, 1), ("imap_unordered", "list", 2, 2)])


def P5():
    return C("P5", kind="factory", quota=1, workers=1, calls=[("imap", "list", 2, 1), ("imap", "list", 2, 1)],
             required=[RETIRE, REPLACE])


def P6():
    return C("P6", kind="factory", quota=1, workers=2, wq=1, calls=[("imap_unordered", "list", 2, 1)],
             required=[RETIRE, REPLACE])


def P7():
    return C("P7", workers=2, wq=1, rq=2, calls=[("imap", "list", 4, 2)])


def P8():
    return C("P8", workers=2, rq=1, calls=[("imap_unordered", "lazy", 3, 1)], required=[FULL])


def P9():
    # first call: all results taken, generator closed at its last yield (not driven to StopIteration); then a full call
    return C("P9", workers=1, calls=[("imap", "list", 2, 1, "exact"), ("imap", "list", 2, 1)])


def P10():
    return C("P10", kind="factory", quota=2, workers=1, calls=[("imap", "list", 3, 1, "exact"), ("imap_unordered", "list", 2, 1, "exact"),
                                                                ("imap", "list", 1, 1)])


def D5():
    # quota 2, one worker, three calls; the retirement notice may be delivered late (multiprocessing.Queue feeder)
    return C("D5", kind="factory", quota=2, workers=1, delayed_put=True,
             calls=[("imap", "list", 2, 1), ("imap", "list", 2, 1), ("imap", "list", 1, 1)])


def D6():
    return C("D6", kind="factory", quota=1, workers=2, wq=1, delayed_put=True, calls=[("imap_unordered", "list", 2, 1), ("imap", "list", 1, 1)])


def P5w():
    # like P5, on a pool that has already handed out a thousand worker ids
    return C("P5w", kind="factory", quota=1, workers=1, wid_offset=1000, calls=[("imap", "list", 2, 1), ("imap", "list", 2, 1)])


def P12():
    # two pools alive at the same time, used alternately
    return C("P12", workers=1, second_pool=True, calls=[("imap", "list", 2, 1), ("imap", "list", 1, 1), ("imap_unordered", "list", 1, 1)])


def P13():
    return C("P13", kind="factory", quota=1, workers=1, second_pool=True, calls=[("imap", "list", 1, 1), ("imap", "list", 2, 1)])


def Z1():
    # two pools, two ordered imaps consumed alternately (zip): chunks may be held back in both reorder buffers at once
    return C("Z1", workers=2, second_pool=True, zipped=True, calls=[("imap", "list", 2, 1), ("imap", "list", 2, 1)])


# (A driver X1 -- call 1 with all results taken but its generator neither exhausted nor closed while call 2 runs -- was
# tried and dropped: two generators of one pool alive at once are overlapping calls, not a "sequence of fully consumed
# calls"; the pool keeps its per-call state on the pool object and does not claim to support that.  DESIGN.md 10.4.)


def Q1():
    # the input is a collections.deque: a finite Sequence that supports neither slicing nor random access in O(1)
    return C("Q1", workers=2, calls=[("imap", "deque", 3, 2), ("imap_unordered", "deque", 2, 1)])


def J5():
    # P5 on a pool with a join_timeout, the timer of a timed join expiring early (environment deviation): a retired worker
    # that has not exited yet when the replace thread stops waiting for it must still get a successor
    return C("J5", kind="factory", quota=1, workers=1, join_timeout=1,
             calls=[("imap", "list", 2, 1), ("imap", "list", 2, 1)])


def V1():
    # items 0 / None / int: a pool must treat a falsy item and a None item (its own stop token) like any other;
    # chunk size 2 puts a None at the end of a chunk and at the end of the data, the second call has one-item chunks
    return C("V1", workers=2, calls=[("imap", "vals", 4, 2), ("imap", "vals", 2, 1)])


def P11():
    # both generators are created up front and then consumed one after the other
    return C("P11", workers=1, precreate=True, calls=[("imap_unordered", "list", 2, 1), ("imap", "list", 1, 1)])


def L1():
    return C("L1", workers=1, calls=[("imap", "lazy", 1, 1)])


def L2():
    return C("L2", workers=1, rq=1, calls=[("imap_unordered", "lazy", 2, 1)])


def E0():
    return C("E0", workers=2, calls=[("imap", "list", 0, 1)])


def E2():
    # bounded results queue and empty inputs: wake-up tokens that nobody consumed pile up in a queue of size 1
    return C("E2", workers=1, rq=1, calls=[("imap", "list", 0, 1), ("imap_unordered", "list", 0, 1), ("imap", "list", 1, 1)])


def U1():
    return C("U1", workers=2, until_all_ready=True, calls=[("imap", "list", 2, 1)])


def history(name, calls, **kw):
    return C(name, workers=1, calls=calls, family="H", **kw)


def call_shapes():
    return [(m, "list", n, cs) for m in ("imap", "imap_unordered") for n in (0, 1, 2) for cs in (1, 2)]


def grid(thorough=True):
    """C01/C02 thorough: W x work x results x n x cs x input x mode, pruned of symmetric configurations"""
    out = []
    for w in (1, 2):
        for wq in (None, 1, 1.0):
            if w == 1 and wq == 1.0:
                continue                      # int(1 * 1.0) == 1
            for rq in (None, 1, 2):
                for n in (0, 1, 2, 3):
                    for cs in (1, 2):
                        if cs > n and n > 0 and cs == 2 and n == 1:
                            continue          # one short chunk == (n=1, cs=1)
                        if n == 0 and cs == 2:
                            continue
                        for ikind in ("list", "lazy"):
                            for mode in ("imap", "imap_unordered"):
                                if mode == "imap_unordered" and rq is not None and w == 1:
                                    continue  # flow control is only used by imap; 1 worker cannot reorder
                                name = "G[w%d,wq%s,rq%s,n%d,cs%d,%s,%s]" % (w, wq, rq, n, cs, ikind, mode)
                                out.append(C(name, workers=w, wq=wq, rq=rq, calls=[(mode, ikind, n, cs)], family="G"))
    return out
