"""C12 -- mutable line files act as a list of lines; save writes it; the source file is untouched.

Engine C (seqmc): breadth-first exploration of edit histories on the *real* mutable line files
(text / memory-mapped x plain / record) in lock-step with a Python list.  After every operation the
whole observable view (len, iteration, every index incl. the two out-of-range ones, two slices, dirty,
bytes of the source file) is compared with the list; in every distinct state the file is additionally
saved to a path and to a StringIO with five line endings (byte comparison) and the "\n" copy is
reopened with the same variant.

The machinery (LineFileSpec, codecs) is shared with checks/c13.py (record files over CSV/TSV/JSON records).
"""
import io
import itertools
import json
import operator
import os
import shutil
from dataclasses import dataclass

from mc.canon import canon
from mc.par import pmap
from mc.report import Report
from mc.seqmc import Spec, Mismatch, explore, observe
from windpyutils import files as wf

ENDINGS = ["\n", "\r\n", "\t", "", "yN}"]   # the last one shares characters with the ends of some lines ("é y", "N", "...}")
NEW = ["", "N", "é"]                   # contents used by the mutators
CONTENT = ["", "x", "é y"]             # contents of the lines of the source file
REMOVE = ["", "N", "é", "x", "é y"]    # remove(s): the new contents plus two that can only be file-backed ("é y": a record line whose
                                       # text in the source file is not the text save() would produce)


@dataclass
class StrRec(wf.JsonRecord):
    s: str


# ------------------------------------------------------------------------------------------------
# codecs: how an "atom" (JSON-able descriptor used in op tuples) becomes the item handed to the API
# ------------------------------------------------------------------------------------------------
SUB = "\u00a7sub"          # atom standing for an instance of a str subclass with the text "sub"


class Sub(str):
    """a line that is a str, but not exactly a str (an enum.StrEnum member, a str carrying an attribute)"""


class PlainCodec:
    """plain line files: items are the strings themselves"""
    record = False
    header = ["class Sub(str): pass"]

    def value(self, atom):
        return Sub("sub") if atom == SUB else atom

    def src_text(self, atom):
        return atom

    def new_texts(self, value):
        return (str(value),)

    def src_texts(self, atom):
        return (atom,)

    def same(self, got, exp):
        return isinstance(got, str) and got == exp

    def ctor(self, cls, path):
        return cls(path)

    def lit(self, atom):
        return "Sub('sub')" if atom == SUB else repr(atom)

    def ctor_lit(self, clsname, pathlit):
        return "%s(%s)" % (clsname, pathlit)


class JsonStrCodec:
    """record files over a one-string-field JSON record; the source file keeps non-ASCII characters raw
    (valid JSON the library did not write), new records are serialised by the library"""
    record = True
    rec_cls = StrRec
    header = ["from dataclasses import dataclass", "from windpyutils.files import JsonRecord",
              "@dataclass", "class StrRec(JsonRecord):", "    s: str"]

    def value(self, atom):
        return StrRec(atom)

    def src_text(self, atom):
        return json.dumps({"s": atom}, ensure_ascii=False, separators=(",", ":"))

    def new_texts(self, value):
        # reference serialisation of a record that went through the API: any JSON object text is accepted as
        # long as it is the library's own save() of an equal record -- computed independently here
        return (json.dumps({"s": value.s}, separators=(",", ":")),)

    def src_texts(self, atom):
        # a line that is still file-backed may be copied verbatim or re-serialised: both are "this line"
        return tuple(sorted({self.src_text(atom), json.dumps({"s": atom}, separators=(",", ":"))}))

    def same(self, got, exp):
        return type(got) is type(exp) and got == exp and repr(got) == repr(exp)

    def ctor(self, cls, path):
        return cls(path, self.rec_cls)

    def lit(self, atom):
        return "StrRec(%r)" % (atom,)

    def ctor_lit(self, clsname, pathlit):
        return "%s(%s, StrRec)" % (clsname, pathlit)


VARIANTS = {
    "text-plain": ("MutableRandomLineAccessFile", False),
    "mmap-plain": ("MutableMemoryMappedRandomLineAccessFile", True),
    "text-record": ("MutableRecordFile", False),
    "mmap-record": ("MutableMemoryMappedRecordFile", True),
}
# classes a saved copy can be reopened with (C12: the same variant; C13 also uses the read-only record files)
REOPEN = dict(VARIANTS, **{"ro-text-record": ("RecordFile", False), "ro-mmap-record": ("MemoryMappedRecordFile", True)})


def strip_cursor(c):
    """canonical key without file / mmap cursor positions (every read of a mutable file seeks first)"""
    if isinstance(c, tuple):
        if len(c) == 5 and c[0] == "file":
            return ("file", c[2], c[3])
        if len(c) == 3 and c[0] == "mmap":
            return ("mmap", c[1])
        return tuple(strip_cursor(x) for x in c)
    return c


class Model:
    """reference: a Python list (vals) + per line the texts a correct save may write + provenance"""
    __slots__ = ("vals", "texts", "orig", "mut", "chg")

    def __init__(self, vals, texts, orig, mut=False, chg=False):
        self.vals, self.texts, self.orig, self.mut, self.chg = vals, texts, orig, mut, chg

    def copy(self):
        return Model(list(self.vals), list(self.texts), list(self.orig), self.mut, self.chg)


def apply_op(target, op, mk):
    """the same call on the real file and on the reference list"""
    k = op[0]
    if k == "set":
        return observe(target.__setitem__, op[1], mk(op[2]))
    if k == "del":
        return observe(target.__delitem__, op[1])
    if k == "insert":
        return observe(target.insert, op[1], mk(op[2]))
    if k == "append":
        return observe(target.append, mk(op[1]))
    if k == "extend":
        return observe(target.extend, [mk(op[1]), mk(op[2])])
    if k == "extend_gen":          # a one-shot iterable as the argument
        return observe(target.extend, (x for x in [mk(op[1]), mk(op[2])]))
    if k == "pop":
        return observe(target.pop)
    if k == "popi":
        return observe(target.pop, op[1])
    if k == "remove":
        return observe(target.remove, mk(op[1]))
    if k == "reverse":
        return observe(target.reverse)
    if k == "iadd":
        return observe(operator.iadd, target, [mk(op[1])])
    raise AssertionError(op)


class LineFileSpec(Spec):
    """one source file x one variant.  init = {"variant", "lines" (atoms), "final_nl"}"""

    def __init__(self, name, variant, codec, init, workdir, new_atoms, remove_atoms, endings=ENDINGS,
                 byte_oracle=True, dirty_oracle=None, reopen=None, extend_pairs=None, src_texts=None):
        self.name = name
        self.variant = variant
        self.clsname, self.is_mmap = VARIANTS[variant]
        self.cls = getattr(wf, self.clsname)
        self.codec = codec
        self.init = init
        self.workdir = workdir
        self.new_atoms = new_atoms
        self.remove_atoms = remove_atoms
        self.endings = endings
        self.byte_oracle = byte_oracle
        self.dirty_oracle = (not codec.record) if dirty_oracle is None else dirty_oracle
        self.reopen = reopen if reopen is not None else [variant]      # variants used to reopen the "\n" copy
        self.extend_pairs = extend_pairs if extend_pairs is not None else [(a, b) for a in new_atoms for b in new_atoms]
        os.makedirs(workdir, exist_ok=True)
        self.src = os.path.join(workdir, "src")
        self.out = os.path.join(workdir, "out")
        texts = src_texts if src_texts is not None else [codec.src_text(a) for a in init["lines"]]
        data = "\n".join(texts)
        if texts and init["final_nl"]:
            data += "\n"
        self.src_bytes = data.encode("utf-8")
        assert b"\r" not in self.src_bytes
        with open(self.src, "wb") as f:
            f.write(self.src_bytes)
        self.visited = set()
        self.saves = 0
        self.reopens = 0
        self.mixed = set()
        self._key = None

    # -- seqmc interface -----------------------------------------------------------------------------
    def initials(self):
        return [self.init]

    def build(self, init):
        r = observe(self.codec.ctor, self.cls, self.src)
        if r[0] != "ok":
            raise Mismatch("open", "constructor -> %r" % (r,))
        f = r[1]
        r = observe(f.open)
        if r[0] != "ok":
            raise Mismatch("open", "open() -> %r" % (r,))
        atoms = init["lines"]
        m = Model([self.codec.value(a) for a in atoms], [self.codec.src_texts(a) for a in atoms],
                  ["F"] * len(atoms))
        return f, m

    def cleanup(self, impl):
        observe(impl.close)

    def decoy(self):
        """a second object of the same class, open on the same source file and already edited once: whatever is done
        to the object under test must leave its view alone"""
        old = getattr(self, "_decoy_obj", None)
        if old is not None:
            observe(old.close)
        r = observe(self.codec.ctor, self.cls, self.src)
        if r[0] != "ok":
            return None
        d = r[1]
        if observe(d.open)[0] != "ok":
            return None
        self._decoy_obj = d
        observe(d.reverse)

        def view(x):
            r_ = observe(lambda: [repr(v) for v in x])
            return (r_, observe(len, x))
        return d, view

    def ops(self, impl, model):
        n = len(model.vals)
        idx = list(range(-n - 1, n + 1))
        ops = []
        for s in self.new_atoms:
            ops.append(("append", s))
        if not self.codec.record:
            ops.append(("append", SUB))         # a str subclass instance as the new line
            if n:
                ops.append(("set", 0, SUB))
        ops.append(("pop",))
        ops.append(("reverse",))
        for s in self.remove_atoms:
            ops.append(("remove", s))
        for s in self.new_atoms:
            ops.append(("iadd", s))
        for i in idx:
            ops.append(("del", i))
        for i in idx:
            ops.append(("popi", i))
        for i in idx:
            for s in self.new_atoms:
                ops.append(("set", i, s))
        for i in idx:
            for s in self.new_atoms:
                ops.append(("insert", i, s))
        for a, b in self.extend_pairs:
            ops.append(("extend", a, b))
        for a, b in self.extend_pairs[:2]:
            ops.append(("extend_gen", a, b))
        return ops

    def step(self, impl, model, op):
        op = tuple(op)
        m = model.copy()
        before = list(m.vals)
        k = op[0]
        # mirror of the structural effect on the parallel lists, decided on the reference list only
        rm_index = None
        if k == "remove":
            v = self.codec.value(op[1])
            rm_index = before.index(v) if v in before else None
        exp = apply_op(m.vals, op, self.codec.value)
        if exp[0] == "ok":
            new_t = lambda a: self.codec.new_texts(self.codec.value(a))   # noqa
            if k == "remove":
                del m.texts[rm_index], m.orig[rm_index]
            else:
                apply_op(m.texts, op, new_t)
                apply_op(m.orig, op, lambda a: "M")
        got = apply_op(impl, op, self.codec.value)
        m.mut = True
        if m.vals != before:
            m.chg = True
        if got[0] != exp[0] or (got[0] == "exc" and got[1] != exp[1]):
            raise Mismatch("op-outcome", "%r -> %r, list gives %r" % (op, self._show(got), self._show(exp)),
                           {"expected": exp[0] if exp[0] == "ok" else exp[1],
                            "got": got[0] if got[0] != "exc" else got[1]})
        if got[0] == "ok":
            if k in ("pop", "popi"):
                if not self.codec.same(got[1], exp[1]):
                    raise Mismatch("op-value", "%r returned %r, list gives %r" % (op, got[1], exp[1]))
            elif k == "iadd":
                if got[1] is not impl:
                    raise Mismatch("op-value", "f += [..] did not return f")
            elif got[1] is not None:
                raise Mismatch("op-value", "%r returned %r, list gives None" % (op, got[1]))
        return m

    def _show(self, r):
        return r if r[0] != "ok" else ("ok", r[1] if not hasattr(r[1], "save") or isinstance(r[1], wf.Record) else "<file>")

    def same_list(self, got, exp):
        return isinstance(got, list) and len(got) == len(exp) and all(self.codec.same(g, e) for g, e in zip(got, exp))

    def read_check(self, f, vals, kind_prefix=""):
        n = len(vals)
        r = observe(len, f)
        if r != ("ok", n):
            raise Mismatch(kind_prefix + "len", "len(f) -> %r, list has %d" % (r, n))
        r = observe(list, f)
        if r[0] != "ok" or not self.same_list(r[1], vals):
            raise Mismatch(kind_prefix + "iter", "list(f) -> %r, list is %r" % (r, vals))
        for i in range(-n - 1, n + 1):
            r = observe(f.__getitem__, i)
            e = observe(vals.__getitem__, i)
            if e[0] == "exc":
                if r != e:
                    raise Mismatch(kind_prefix + "getitem", "f[%d] -> %r, list gives %r (len %d)" % (i, r, e, n),
                                   {"expected": e[1]})
            elif r[0] != "ok" or not self.codec.same(r[1], e[1]):
                raise Mismatch(kind_prefix + "getitem", "f[%d] -> %r, list gives %r (len %d)" % (i, r, e, n),
                               {"expected": "ok"})
        for sl in (slice(1, None), slice(None, None, -1)):
            r = observe(f.__getitem__, sl)
            if r[0] != "ok" or not self.same_list(r[1], vals[sl]):
                raise Mismatch(kind_prefix + "slice", "f[%r] -> %r, list gives %r" % (sl, r, vals[sl]))

    def src_check(self, when):
        with open(self.src, "rb") as fh:
            b = fh.read()
        if b != self.src_bytes:
            raise Mismatch("source-modified", "bytes of the source file changed %s: %r -> %r" % (when, self.src_bytes, b))

    def check(self, impl, model):
        self.read_check(impl, model.vals)
        if self.dirty_oracle:
            r = observe(lambda: impl.dirty)
            if not model.mut and r != ("ok", False):
                raise Mismatch("dirty", "dirty -> %r before any mutator was called" % (r,), {"expected": False})
            if model.chg and r != ("ok", True):
                raise Mismatch("dirty", "dirty -> %r after the content was changed" % (r,), {"expected": True})
        self.src_check("after the operation")
        self._key = (strip_cursor(canon(impl)), model.mut, model.chg)
        if self._key not in self.visited:
            self.visited.add(self._key)
            if "F" in model.orig and "M" in model.orig:
                self.mixed.add(self._key)
            self.save_check(impl, model)

    def key(self, impl, model):
        return self._key

    def nontrivial(self, impl, model):
        return "F" in model.orig and "M" in model.orig

    # -- save / reopen ---------------------------------------------------------------------------------
    def save_check(self, f, model):
        for e in self.endings:
            expected = {"".join(t + e for t in combo) for combo in itertools.product(*model.texts)}
            cls_e = "\\n" if e == "\n" else "other"
            if os.path.exists(self.out):
                os.remove(self.out)
            r = observe(f.save, self.out, e)
            self.saves += 1
            if r != ("ok", None):
                raise Mismatch("save-raises", "save(path, %r) -> %r" % (e, r), {"target": "path", "ending": cls_e})
            with open(self.out, "rb") as fh:
                b = fh.read()
            if self.byte_oracle and b not in {x.encode("utf-8") for x in expected}:
                raise Mismatch("save-bytes", "save(path, %r) wrote %r, expected %r" % (
                    e, b, sorted(expected)[0].encode("utf-8")), {"target": "path", "ending": cls_e})
            if e == "\n":
                for rv in self.reopen:
                    if not model.vals and REOPEN[rv][1]:
                        continue        # an empty file cannot be memory-mapped: not demanded
                    self.reopens += 1
                    g = observe(self.codec.ctor, getattr(wf, REOPEN[rv][0]), self.out)
                    if g[0] == "ok":
                        o = observe(g[1].open)
                        if o[0] != "ok":
                            g = o
                    if g[0] != "ok":
                        raise Mismatch("reopen-raises", "reopening the saved file (%r) with %s -> %r" % (b, rv, g),
                                       {"reopen_with": rv})
                    try:
                        try:
                            self.read_check(g[1], model.vals, "reopen-")
                        except Mismatch as m:
                            m.sig_extra = dict(m.sig_extra, reopen_with=rv)
                            m.detail = "saved file %r reopened with %s: %s" % (b, rv, m.detail)
                            raise m
                    finally:
                        observe(g[1].close)
            sio = io.StringIO()
            r = observe(f.save, sio, e)
            self.saves += 1
            if r != ("ok", None):
                raise Mismatch("save-raises", "save(StringIO, %r) -> %r" % (e, r), {"target": "stream", "ending": cls_e})
            if self.byte_oracle and sio.getvalue() not in expected:
                raise Mismatch("save-bytes", "save(StringIO, %r) wrote %r, expected %r" % (
                    e, sio.getvalue(), sorted(expected)[0]), {"target": "stream", "ending": cls_e})
        # saving must neither change the view nor the source
        r = observe(list, f)
        if r[0] != "ok" or not self.same_list(r[1], model.vals):
            raise Mismatch("save-side-effect", "list(f) after save -> %r, list is %r" % (r, model.vals))
        self.src_check("after save")

    # -- replay text -------------------------------------------------------------------------------------
    def snippet(self, init, hist):
        c = self.codec
        lines = ["from windpyutils.files import %s" % self.clsname] + list(c.header)
        lines.append("open('/tmp/src.txt', 'wb').write(%r)" % (self.src_bytes,))
        lines.append("f = %s.open()" % c.ctor_lit(self.clsname, "'/tmp/src.txt'"))
        for op in hist:
            op = tuple(op)
            k = op[0]
            call = {"set": lambda: "f[%d] = %s" % (op[1], c.lit(op[2])),
                    "del": lambda: "del f[%d]" % op[1],
                    "insert": lambda: "f.insert(%d, %s)" % (op[1], c.lit(op[2])),
                    "append": lambda: "f.append(%s)" % c.lit(op[1]),
                    "extend": lambda: "f.extend([%s, %s])" % (c.lit(op[1]), c.lit(op[2])),
                    "extend_gen": lambda: "f.extend(x for x in [%s, %s])" % (c.lit(op[1]), c.lit(op[2])),
                    "pop": lambda: "f.pop()",
                    "popi": lambda: "f.pop(%d)" % op[1],
                    "remove": lambda: "f.remove(%s)" % c.lit(op[1]),
                    "reverse": lambda: "f.reverse()",
                    "iadd": lambda: "f += [%s]" % c.lit(op[1])}[k]()
            lines.append(call)
        lines.append("print(len(f), list(f), getattr(f, 'dirty', None))")
        lines.append("f.save('/tmp/out.txt'); print(open('/tmp/out.txt', 'rb').read(), open('/tmp/src.txt', 'rb').read())")
        return "\n".join(lines)


# ------------------------------------------------------------------------------------------------
# the C12 space
# ------------------------------------------------------------------------------------------------
def source_files():
    """0-3 lines over CONTENT, with and without final newline (a last empty line needs the newline)"""
    out = []
    for n in range(0, 4):
        for lines in itertools.product(CONTENT, repeat=n):
            for final_nl in (True, False):
                if n == 0 and final_nl:
                    continue
                if n and not final_nl and lines[-1] == "":
                    continue      # would be the same bytes as one line less, with final newline
                out.append((list(lines), final_nl))
    return out


QUICK_DEEP_2 = [["", "é y"], ["é y", "x"]]       # two-line files explored to the deep bound in the quick tier


def depth_for(tier, lines):
    """depth bound per source file (stated per part in the evidence).  quick: depth 3 on every file with <= 1
    line and on the two-line files of QUICK_DEEP_2 (with and without final newline), depth 2 on all other
    files; thorough: depth 4 on files with <= 1 line, depth 3 on all others."""
    n = len(lines)
    if tier == "quick":
        return 3 if n <= 1 or list(lines) in QUICK_DEEP_2 else 2
    return 4 if n <= 1 else 3


def make_spec(variant, lines, final_nl, workdir):
    codec = JsonStrCodec() if variant.endswith("record") else PlainCodec()
    return LineFileSpec("mutable-lines/" + variant, variant, codec,
                        {"variant": variant, "lines": list(lines), "final_nl": final_nl},
                        workdir, NEW, REMOVE)


def _task(arg):
    idx, variant, lines, final_nl, depth, scratch = arg
    r = Report("C12", collect_only=True)
    spec = make_spec(variant, lines, final_nl, os.path.join(scratch, "t%d" % idx))
    res = explore(spec, r, max_depth=depth)
    shutil.rmtree(spec.workdir, ignore_errors=True)
    d = r.dump()
    d["extra"] = {"variant": variant, "n": len(lines), "depth": depth, "saves": spec.saves, "reopens": spec.reopens,
                  "states": res["states"], "transitions": res["transitions"], "mixed": len(spec.mixed)}
    return d


def run(report, tier):
    scratch = "/dev/shm/verif-%d-c12" % os.getpid()
    os.makedirs(scratch, exist_ok=True)
    try:
        tasks = []
        skipped_mmap_empty = 0
        for variant in VARIANTS:
            for lines, final_nl in source_files():
                if not lines and VARIANTS[variant][1]:
                    skipped_mmap_empty += 1
                    continue
                tasks.append([variant, lines, final_nl, depth_for(tier, lines)])
        # expensive tasks first (load balance only; results are merged in task order)
        tasks.sort(key=lambda t: -(t[3] * 10 + len(t[1])))
        tasks = [[i] + t + [scratch] for i, t in enumerate(tasks)]
        results = pmap(_task, tasks)
        agg = {}
        for d in results:
            x = d.pop("extra")
            d["cov"]["parts"] = []
            report.merge(d)
            a = agg.setdefault((x["variant"], x["depth"]), {"files": 0, "states": 0, "transitions": 0, "saves": 0,
                                                             "reopens": 0, "mixed_states": 0})
            a["files"] += 1
            for k_, s_ in (("states", "states"), ("transitions", "transitions"), ("saves", "saves"),
                           ("reopens", "reopens"), ("mixed_states", "mixed")):
                a[k_] += x[s_]
        for (variant, depth), a in sorted(agg.items()):
            report.cov["parts"].append(dict(name="mutable-lines/%s depth<=%d" % (variant, depth), depth_bound=depth,
                                            source_files=a["files"], exhaustive=True, **{k: v for k, v in a.items() if k != "files"}))
        report.cov["save_calls"] = sum(a["saves"] for a in agg.values())
        report.cov["reopens"] = sum(a["reopens"] for a in agg.values())
        report.cov["source_files"] = len(source_files())
        report.cov["mmap_empty_source_skipped"] = skipped_mmap_empty
    finally:
        shutil.rmtree(scratch, ignore_errors=True)
    report.rule("one evaluation = one mutator (full menu: f[i]=s, del f[i], insert(i,s), append, extend([s,t]), pop(), "
                "pop(i), remove(s), reverse(), f+=[s]; i in [-n-1,n]; s in {'','N','é'}) applied in one distinct state of a "
                "real mutable line file, followed by len / list(f) / f[i] for every i in [-n-1,n] / two slices / dirty / "
                "source-bytes comparison with a Python list; in every distinct state additionally save() to a path and to "
                "a StringIO with endings \\n, \\r\\n, \\t, '', 'yN}' (byte comparison) and a reopen of the \\n copy; "
                "non-trivial = distinct state whose lines are partly file-backed and partly in memory")
    report.assume("the file / mmap cursor is left out of the canonical state key: every read of a mutable file seeks "
                  "first (iteration of an unmodified file seeks to 0), so the cursor does not influence later operations")
    report.assume("dirty is judged only where the statement fixes it: False while no mutator was called, True once an "
                  "operation changed the list; a mutator that raised or rewrote identical content is not judged")
    report.assume("record variants: a line may be written verbatim or re-serialised (both texts accepted); "
                  "contents are free of \\r (C11 owns the universal-newline behaviour)")


def replay(rec):
    rp = rec["replay"]
    print(rec["what"])
    print("--- snippet ---")
    print(rp.get("snippet"))
    init = rp["init"]
    scratch = "/dev/shm/verif-%d-c12" % os.getpid()
    try:
        spec = make_spec(init["variant"], init["lines"], init["final_nl"], os.path.join(scratch, "replay"))
        impl, model = spec.build(init)
        try:
            spec.check(impl, model)
            for op in rp["history"]:
                print("op", op)
                model = spec.step(impl, model, op)
                spec.check(impl, model)
        except Mismatch as m:
            print("REPRODUCED: %s: %s" % (m.kind, m.detail))
            return 1
        finally:
            spec.cleanup(impl)
        print("not reproduced: the history runs without a mismatch on this tree")
        return 0
    finally:
        shutil.rmtree(scratch, ignore_errors=True)
