"""C06 -- LRUCache: bounded mapping, evicts exactly the least recently used key; views terminate and agree.

Whole reachable state graph of the real LRUCache for capacities 1..3 (thorough: ..4), and under the core of the
menu (class LRUCoreSpec) for capacity 4 (thorough: 4, 5); keys {0..capacity},
values {a,b}, under the full MutableMapping menu (store, lookup, delete, membership, len, iteration, keys,
values, items, get, pop with and without default, popitem, clear, update with one and two keys, setdefault,
== against dicts and against another LRUCache with equal / different content).  Every operation is applied in
every reachable state; every call into the library runs under a deterministic step budget.

Reference: a set of ordered entry tuples (most recent first).  Store and successful lookup (c[k], get,
setdefault on a present key) move the key to the front; `k in c` may or may not; a store of a new key into a
full cache drops exactly the last key; popitem may take any entry; values()/items()/== must return the
content and terminate but the statement does not say whether their look-ups are uses, so afterwards any
recency order of the same entries is accepted.  After every operation list(c) must equal the order of some
reference state (which also bounds the size and pins the victim of an eviction), len(c) must agree, the
internal dict and recency list must describe the same keys with consistent links (C08 walker), and on a
deep copy every key is looked up: present keys return the latest stored value, absent keys raise KeyError.
"""
import itertools

from checks.c06_common import CacheSpec, VALUES, PURE, VIEWS, explore_levels, replay_record
from windpyutils.structures.caches import LRUCache


class LRUSpec(CacheSpec):
    cls = LRUCache
    cls_name = "LRUCache"
    import_line = "from windpyutils.structures.caches import LRUCache"

    def content(self, s):
        return dict(s)

    def consistent(self, s, order):
        return [k for k, _ in s] == order

    def _store(self, s, k, v):
        if any(e[0] == k for e in s):
            return ((k, v),) + tuple(e for e in s if e[0] != k)
        rest = s[:-1] if len(s) >= self.capacity else s      # the least recently used key, nothing else
        return ((k, v),) + rest

    @staticmethod
    def _use(s, k):
        return tuple(e for e in s if e[0] == k) + tuple(e for e in s if e[0] != k)

    @staticmethod
    def _remove(s, k):
        return tuple(e for e in s if e[0] != k)

    def successors(self, s, op, got):
        kind = op[0]
        present = len(op) > 1 and any(e[0] == op[1] for e in s)
        if kind in ("set", "update"):
            return [self._store(s, op[1], op[2])]
        if kind == "update2":
            return [self._store(self._store(s, op[1], VALUES[0]), op[2], VALUES[1])]
        if kind == "update3":
            return [self._store(self._store(self._store(s, op[1], VALUES[0]), op[2], VALUES[1]), op[2], VALUES[0])]
        if kind in ("get", "getd"):
            return [self._use(s, op[1])] if present else [s]
        if kind == "setdefault":
            return [self._use(s, op[1])] if present else [self._store(s, op[1], op[2])]
        if kind == "in":
            return [s, self._use(s, op[1])] if present else [s]
        if kind in ("del", "pop", "popd"):
            return [self._remove(s, op[1])]
        if kind == "popitem":
            return [self._remove(s, got[1][0])] if got[0] == "ok" else [s]
        if kind == "clear":
            return [()]
        if kind in PURE:
            return [s]
        if kind in VIEWS:
            return list(itertools.permutations(s))
        raise AssertionError(op)

    def interesting(self, model):
        return all(len(s) >= self.capacity for s in model)     # full: every store of a new key evicts


class LRUCoreSpec(LRUSpec):
    """Larger capacities under the core of the menu (store of one value, look-up, delete, membership, pop, popitem,
    iteration, items): the whole reachable graph still closes, and the recency list is long enough for a hit
    on a key that is neither first, second nor last (link surgery in the middle of the list)."""

    def __init__(self, capacity):
        super().__init__(capacity)
        self.name = "%s/c=%d/core-menu" % (self.cls_name, capacity)

    def ops(self, impl, model):
        K = self.keys
        ops = [("set", k, VALUES[0]) for k in K] + [("get", k) for k in K] + [("del", k) for k in K]
        ops += [("in", k) for k in K] + [("pop", k) for k in K] + [("popitem",), ("iter",), ("items",)]
        return ops


def make_spec(capacity, core=False):
    return LRUCoreSpec(capacity) if core else LRUSpec(capacity)


def run(report, tier):
    report.rule("one evaluation = one operation of the mapping menu applied in one reachable cache state, "
                "followed by list(c) against the reference set, len, dict/list/link agreement and a look-up of "
                "every key on a deep copy; non-trivial = distinct reachable state of a full cache (every store of "
                "a new key evicts)")
    caps = (1, 2, 3) if tier == "quick" else (1, 2, 3, 4)
    for cap in caps:
        res = explore_levels(make_spec, (cap,), report, max_depth=None)
        st = res["stats"]
        if not res["closed"]:
            report.harness_error("LRUCache/c=%d: reachable graph not closed" % cap)
        if report.cov["exhaustive"] and not report.violations and not report.known_hits:
            for f in ("evict", "overwrite", "in_present") + (("view2",) if cap >= 2 else ()):
                if not st.get(f):
                    report.harness_error("vacuous: LRUCache/c=%d never exercised '%s'" % (cap, f))
        if st.get("no_internals"):
            report.assume("LRUCache no longer has .cache/.list with head: internal agreement not checked")
    for cap in ((4,) if tier == "quick" else (4, 5)):
        res = explore_levels(make_spec, (cap, True), report, max_depth=None)
        if not res["closed"]:
            report.harness_error("LRUCache/c=%d/core-menu: reachable graph not closed" % cap)
        if report.cov["exhaustive"] and not report.violations and not report.known_hits and not res["stats"].get("evict"):
            report.harness_error("vacuous: LRUCache/c=%d/core-menu never evicted" % cap)
    report.assume("values are opaque to the cache (two values suffice to tell a stale from a fresh one); keys are "
                  "hashable ints, capacity+1 of them suffice to overflow")
    report.assume("values()/items()/== may or may not count as uses of the keys (statement silent): any recency "
                  "order of the same entries is accepted after them")


def replay(rec):
    return replay_record(make_spec, rec)
