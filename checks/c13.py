"""C13 -- records survive save/load; record files are sequences of records.

Four exhaustively enumerated parts, all on the real classes of windpyutils.files:

A  round trip: every record of JSON / CSV / TSV record classes with 1-3 fields of types str / int / float
   in all orders over the stated value alphabets (plus JSON bools, None and nestings): load(save(r)) == r
   (and repr-equal, which separates -0.0 / 0.0, True / 1, 7 / 7.0); written through a mutable record
   file's save() -- i.e. through _save_from_iter -- the record occupies exactly one "\n"-delimited line;
   batches of such lines are read back by the four record-file variants by index, slice, index list and
   iteration, each item must be the record (and load(raw line) must be the record).
B  save-call histories: every sequence of <= 3 save() calls over 2 CSV classes + 1 TSV class x 3 records;
   each output must equal the output of the same call as the first call in a freshly executed copy of
   windpyutils/files.py (the shared class-level StringIO / writer cache must not carry anything over).
C  mutable record files (buffered / memory-mapped) x CSV / TSV / JSON record class: the C12 exploration
   (checks/c12.py: full mutator menu against a Python list after every operation) to depth 2 / 3; in
   every distinct state save() and reopen with all four record-file variants -> same records.
"""
import csv
import dataclasses
import io
import itertools
import json
import os
import shutil
import sys
import types as pytypes

from mc.par import pmap
from mc.report import Report
from mc.seqmc import Mismatch, explore, observe
from windpyutils import files as wf
from checks.c12 import LineFileSpec, VARIANTS

ALPHA = ["a", ",", "\t", '"', " ", "é", "\\", "'"]
INTS = [0, -1, 7, 2 ** 53 + 1, 10 ** 20 + 1]      # the last two are not representable as floats
# JSON "any strings": characters a JSON writer may or may not escape (lone surrogate, Unicode line separators, NUL, DEL)
JSON_SPECIAL = ["\ud83d", "a\udcffb", "\u2028", "\u2029", "\x85", "\x00", "\x7f", "\U0001f600"]
FLOATS = [0.0, -0.0, 1.5, 0.1, 1e-320, 1e308]
TYPES = {"str": str, "int": int, "float": float, "any": object}
BASES = {"json": "JsonRecord", "csv": "CSVRecord", "tsv": "TSVRecord"}
READERS = ["RecordFile", "MemoryMappedRecordFile", "MutableRecordFile", "MutableMemoryMappedRecordFile"]
BATCH = 256


def strings(maxlen):
    return ["".join(p) for n in range(maxlen + 1) for p in itertools.product(ALPHA, repeat=n)]


def make_cls(fmt, types, module=wf, name="R"):
    return dataclasses.make_dataclass(name, [("f%d" % i, TYPES[t]) for i, t in enumerate(types)],
                                      bases=(getattr(module, BASES[fmt]),))


def same(got, exp):
    return type(got) is type(exp) and got == exp and repr(got) == repr(exp)


def cls_source(fmt, types, name="R"):
    lines = ["from dataclasses import dataclass", "from windpyutils.files import %s" % BASES[fmt],
             "@dataclass", "class %s(%s):" % (name, BASES[fmt])]
    lines += ["    f%d: %s" % (i, "object" if t == "any" else t) for i, t in enumerate(types)]
    return lines


def kind_of(v):
    return {str: "str", int: "int", float: "float", bool: "bool", type(None): "none", list: "list",
            dict: "dict"}.get(type(v), type(v).__name__)


# ------------------------------------------------------------------------------------------------
# part A: round trip + one line + read back through the record files
# ------------------------------------------------------------------------------------------------
class RoundTrip:
    def __init__(self, report, fmt, types, workdir):
        self.report = report
        self.fmt = fmt
        self.types = list(types)
        self.cls = make_cls(fmt, types)
        self.workdir = workdir
        os.makedirs(workdir, exist_ok=True)
        self.empty = os.path.join(workdir, "empty")
        open(self.empty, "wb").close()
        self.path = os.path.join(workdir, "batch")
        self.mf = None
        self.batch = []
        self.records = 0
        self.readbacks = 0
        self.escaped = 0
        self.samples = 0

    def viol(self, kind, vals, what, **sig):
        s = {"part": "roundtrip", "format": self.fmt, "kind": kind}
        s.update(sig)
        snippet = cls_source(self.fmt, self.types) + [
            "r = R(%s)" % ", ".join(repr(v) for v in vals),
            "s = r.save(); print(repr(s)); l = R.load(s); print(repr(l), l == r, repr(l) == repr(r))"]
        self.report.violation(s, "%s record %s%r: %s" % (self.fmt, tuple(self.types), tuple(vals), what),
                              {"part": "roundtrip", "format": self.fmt, "types": self.types, "values": list(vals),
                               "snippet": "\n".join(snippet)})

    def first_diff(self, got, rec):
        if type(got) is not type(rec):
            return "type"
        for f in dataclasses.fields(rec):
            a, b = getattr(got, f.name, None), getattr(rec, f.name)
            if not (type(a) is type(b) and a == b and repr(a) == repr(b)):
                return kind_of(b)
        return "?"

    def fresh_mf(self):
        if self.mf is not None:
            observe(self.mf.close)
        self.mf = wf.MutableRecordFile(self.empty, self.cls).open()

    def one(self, vals):
        self.records += 1
        rec = self.cls(*vals)
        s = observe(rec.save)
        if s[0] != "ok" or not isinstance(s[1], str):
            return self.viol("save-raises", vals, "save() -> %r" % (s,))
        if ("\\" in s[1]) if self.fmt == "json" else ('"' in s[1]):
            self.escaped += 1
        l = observe(self.cls.load, s[1])
        if l[0] != "ok":
            return self.viol("load-raises", vals, "load(%r) -> %r" % (s[1], l))
        if not same(l[1], rec):
            return self.viol("roundtrip", vals, "load(save(r)) = %r from text %r" % (l[1], s[1]),
                             field=self.first_diff(l[1], rec))
        # load() is a function of the text: changing the record it returned must not change what the next
        # load() of the same text returns
        if self.records % 3 == 0 and dataclasses.fields(rec):
            f0 = dataclasses.fields(rec)[0].name
            try:
                setattr(l[1], f0, "changed-by-the-caller")
            except Exception:   # noqa  (frozen records: nothing to test)
                pass
            else:
                l2 = observe(self.cls.load, s[1])
                if l2[0] != "ok" or not same(l2[1], rec):
                    return self.viol("load-not-a-function-of-the-text", vals,
                                     "x = load(t); x.%s = ...; load(t) -> %r, expected %r (t = %r)" % (f0, l2, rec, s[1]))
        # what _save_from_iter writes for this record (through the public save() of a mutable record file)
        if self.mf is None:
            self.fresh_mf()
        a = observe(self.mf.append, rec)
        sio = io.StringIO()
        w = observe(self.mf.save, sio) if a[0] == "ok" else a
        p = observe(self.mf.pop) if a[0] == "ok" else a
        if a[0] != "ok" or w != ("ok", None) or p[0] != "ok":
            self.fresh_mf()
            return self.viol("file-save-raises", vals, "append/save/pop on a mutable record file -> %r %r %r" % (a, w, p))
        text = sio.getvalue()
        if not (text.endswith("\n") and text.count("\n") == 1):
            return self.viol("not-one-line", vals, "written as %r: not exactly one \\n-terminated line" % (text,))
        if self.samples < 1 and self.records % 50 == 7:
            self.samples += 1
            self.report.sample({"part": "roundtrip", "format": self.fmt, "types": self.types, "values": list(vals),
                                "written": text})
        self.batch.append((vals, rec))
        if len(self.batch) >= BATCH:
            self.flush()

    def flush(self):
        batch, self.batch = self.batch, []
        if not batch:
            return
        n = len(batch)
        recs = [r for _, r in batch]
        if os.path.exists(self.path):
            os.remove(self.path)
        m = wf.MutableRecordFile(self.empty, self.cls)
        w = observe(lambda: (m.open(), m.extend(recs), m.save(self.path), m.close()))
        if w[0] != "ok":
            return self.viol("file-save-raises", batch[0][0], "extend + save of %d records -> %r" % (n, w))
        with open(self.path, "rb") as fh:
            raw = fh.read().decode("utf-8").split("\n")
        if len(raw) != n + 1 or raw[-1] != "":
            return self.viol("batch-structure", batch[0][0], "%d records saved as %d \\n-delimited pieces" % (n, len(raw)))
        for i in range(n):
            l = observe(self.cls.load, raw[i])
            if l[0] != "ok" or not same(l[1], recs[i]):
                self.viol("raw-line-load", batch[i][0], "load(%r) (the line as saved) -> %r" % (raw[i], l))
        for vname in READERS:
            g = observe(lambda: getattr(wf, vname)(self.path, self.cls).open())
            if g[0] != "ok":
                self.viol("readback-open", batch[0][0], "%s on the saved file -> %r" % (vname, g), variant=vname)
                continue
            g = g[1]
            self.readbacks += n
            try:
                r = observe(len, g)
                if r != ("ok", n):
                    self.viol("readback-len", batch[0][0], "%s: len -> %r, %d records saved" % (vname, r, n), variant=vname)
                    continue
                for i in range(n):
                    r = observe(g.__getitem__, i)
                    if r[0] != "ok" or not same(r[1], recs[i]):
                        self.viol("readback-item", batch[i][0], "%s[%d] on line %r -> %r" % (vname, i, raw[i], r),
                                  variant=vname)
                        break
                r = observe(g.__getitem__, -1)
                if r[0] != "ok" or not same(r[1], recs[-1]):
                    self.viol("readback-item", batch[-1][0], "%s[-1] -> %r" % (vname, r), variant=vname)
                r = observe(list, g)
                if r[0] != "ok" or len(r[1]) != n or not all(same(a, b) for a, b in zip(r[1], recs)):
                    bad = next((i for i in range(n) if r[0] != "ok" or i >= len(r[1]) or not same(r[1][i], recs[i])), 0)
                    self.viol("readback-iter", batch[bad][0], "%s: iteration differs at line %d" % (vname, bad), variant=vname)
                for sel in (slice(1, None, 2), slice(max(n - 3, 0), None), [n - 1, 0]):
                    exp = recs[sel] if isinstance(sel, slice) else [recs[j] for j in sel]
                    r = observe(g.__getitem__, sel)
                    if r[0] != "ok" or not isinstance(r[1], list) or len(r[1]) != len(exp) or \
                            not all(same(a, b) for a, b in zip(r[1], exp)):
                        self.viol("readback-slice", batch[0][0], "%s[%r] differs" % (vname, sel), variant=vname)
            finally:
                observe(g.close)

    def done(self):
        self.flush()
        if self.mf is not None:
            observe(self.mf.close)
        shutil.rmtree(self.workdir, ignore_errors=True)


def field_values(tier):
    if tier == "quick":
        full1, full2 = strings(2), strings(2)
    else:
        full1, full2 = strings(4), strings(3)
    small = strings(1)
    return {"full1": {"str": full1, "int": INTS, "float": FLOATS},
            "full2": {"str": full2, "int": INTS, "float": FLOATS},
            "small": {"str": small, "int": INTS, "float": FLOATS}}


def value_tuples(types, fv):
    """1 field: the full set; 2 fields: full x small and small x full; 3 fields: small^3"""
    if len(types) == 1:
        return [(v,) for v in fv["full1"][types[0]]]
    if len(types) == 2:
        seen, out = set(), []
        for a, b in ((fv["full2"], fv["small"]), (fv["small"], fv["full2"])):
            for v in itertools.product(a[types[0]], b[types[1]]):
                k = repr(v)
                if k not in seen:
                    seen.add(k)
                    out.append(v)
        return out
    return list(itertools.product(*[fv["small"][t] for t in types]))


NEST_LEAVES = ["", 'é"', 0, 10 ** 20, -0.0, 1e-320, True, None]


def nest_keys(tier):
    return ["", "f0"] if tier == "quick" else ["", "f0", 'é"']


def containers(elems, keys, first=None):
    """lists and string-keyed dicts of width <= 2 over elems; first = (kind, index[, key]) restricts to the
    containers whose first element is elems[index] (work partition), None = only the two empty ones"""
    if first is None:
        yield []
        yield {}
        return
    if first[0] == "list":
        e = elems[first[1]]
        yield [e]
        for e2 in elems:
            yield [e, e2]
    else:
        e, k = elems[first[1]], first[2]
        yield {k: e}
        for k2 in keys:
            if k2 != k:
                for e2 in elems:
                    yield {k: e, k2: e2}


def nest_elems(tier):
    keys = nest_keys(tier)
    d1 = list(containers(NEST_LEAVES, keys))
    for i in range(len(NEST_LEAVES)):
        d1 += list(containers(NEST_LEAVES, keys, ("list", i)))
        for k in keys:
            d1 += list(containers(NEST_LEAVES, keys, ("dict", i, k)))
    return list(NEST_LEAVES) + d1, len(d1)


def _rt_task(arg):
    idx, tier, scratch, kind, fmt, spec_ = arg
    r = Report("C13", collect_only=True)
    wd = os.path.join(scratch, "a%d" % idx)
    if kind == "typed":
        types = spec_
        rt = RoundTrip(r, fmt, types, wd)
        for vals in value_tuples(types, field_values(tier)):
            rt.one(vals)
        name = "roundtrip/%s/%d-field" % (fmt, len(types))
    elif kind == "json-leaves":
        rt = RoundTrip(r, "json", ["any"], wd)
        fv = field_values(tier)["full1"]
        for v in list(fv["str"]) + JSON_SPECIAL + INTS + FLOATS + [True, False, None]:
            rt.one((v,))
        name = "roundtrip/json/any-leaf"
    elif kind == "json-nest":
        elems, _ = nest_elems(tier)
        rt = RoundTrip(r, "json", ["any"], wd)
        for first in spec_:
            for c in containers(elems, nest_keys(tier), first):
                rt.one((c,))
        name = "roundtrip/json/nested"
    elif kind == "json-nest2":
        # two fields: (depth-1 container, leaf) and (leaf, depth-1 container)
        elems, n1 = nest_elems(tier)
        d1 = elems[len(NEST_LEAVES):]
        rt = RoundTrip(r, "json", ["any", "any"], wd)
        for c in d1:
            for leaf in NEST_LEAVES:
                rt.one((c, leaf))
                rt.one((leaf, c))
        name = "roundtrip/json/nested-2-field"
    else:
        raise AssertionError(kind)
    rt.done()
    d = r.dump()
    d["extra"] = {"name": name, "records": rt.records, "readbacks": rt.readbacks, "escaped": rt.escaped}
    return d


def part_a(report, tier, scratch):
    tasks = []
    for fmt in ("csv", "tsv", "json"):
        for n in (1, 2, 3):
            for types in itertools.product(("str", "int", "float"), repeat=n):
                tasks.append(("typed", fmt, list(types)))
    tasks.append(("json-leaves", "json", None))
    elems, _ = nest_elems(tier)
    keys = nest_keys(tier)
    firsts = [None] + [("list", i) for i in range(len(elems))] + \
             [("dict", i, k) for i in range(len(elems)) for k in keys]
    chunk = 8
    for c in range(0, len(firsts), chunk):
        tasks.append(("json-nest", "json", firsts[c:c + chunk]))
    tasks.append(("json-nest2", "json", None))
    tasks = [(i, tier, scratch) + t for i, t in enumerate(tasks)]
    agg = {}
    for d in pmap(_rt_task, tasks):
        x = d.pop("extra")
        d["cov"]["parts"] = []
        report.merge(d)
        a = agg.setdefault(x["name"], {"records": 0, "readbacks": 0, "escaped": 0, "tasks": 0})
        a["tasks"] += 1
        for k in ("records", "readbacks", "escaped"):
            a[k] += x[k]
    for name, a in sorted(agg.items()):
        report.part(name, states=a["records"], transitions=a["records"], traces_validated_against_impl=a["records"],
                    evaluations=a["records"], file_readbacks=a["readbacks"], records_needing_quoting_or_escape=a["escaped"],
                    exhaustive=True)
        report.nontrivial_n(a["escaped"])
    report.cov["nest_elements"] = len(elems)


# ------------------------------------------------------------------------------------------------
# part B: save-call histories against a fresh copy of the module
# ------------------------------------------------------------------------------------------------
_CODE = [None, 0]


def fresh_module():
    """a new execution of windpyutils/files.py: untouched class-level StringIO, writer and field caches"""
    path = wf.__file__
    if _CODE[0] is None:
        with open(path, encoding="utf-8") as f:
            _CODE[0] = compile(f.read(), path, "exec")
    _CODE[1] += 1
    name = "_c13_fresh_files_%d" % _CODE[1]
    mod = pytypes.ModuleType(name)
    mod.__file__ = path
    sys.modules[name] = mod
    try:
        exec(_CODE[0], mod.__dict__)
    finally:
        del sys.modules[name]
    return mod


HIST_CLASSES = [("csv", ["str", "int"]), ("csv", ["float", "str", "str"]), ("tsv", ["str", "int"])]
HIST_RECORDS = [
    [("a,b c", 7), ("", 0), ('"', -1)],
    [(1.5, "é", "\t"), (-0.0, "", ""), (1e308, "x,y and a long tail", " ")],
    [("a\tb", 10 ** 20), ("", 0), ("'\\", -1)],
]


def hist_classes(mod):
    return [make_cls(fmt, t, module=mod, name="H%d" % i) for i, (fmt, t) in enumerate(HIST_CLASSES)]


def hist_call(classes, call):
    c, j = call
    return observe(classes[c](*HIST_RECORDS[c][j]).save)


def hist_snippet(hist):
    lines = []
    for i, (fmt, t) in enumerate(HIST_CLASSES):
        lines += cls_source(fmt, t, "H%d" % i)[(0 if i == 0 else 1):]
    for c, j in hist:
        lines.append("print(repr(H%d(%s).save()))" % (c, ", ".join(repr(v) for v in HIST_RECORDS[c][j])))
    return "\n".join(lines)


def part_b(report, tier):
    calls = [(c, j) for c in range(3) for j in range(3)]
    expected = {}
    for call in calls:
        expected[call] = hist_call(hist_classes(fresh_module()), call)
        if expected[call][0] != "ok":
            report.violation({"part": "histories", "kind": "first-call-raises", "format": HIST_CLASSES[call[0]][0]},
                             "first save() in a fresh module -> %r" % (expected[call],),
                             {"part": "histories", "history": [list(call)], "snippet": hist_snippet([call])})
    n = evals = differing = 0
    maxlen = 3
    for ln in range(1, maxlen + 1):
        for hist in itertools.product(calls, repeat=ln):
            classes = hist_classes(fresh_module())
            n += 1
            for pos, call in enumerate(hist):
                got = hist_call(classes, call)
                evals += 1
                if got != expected[call]:
                    differing += 1
                    report.violation({"part": "histories", "kind": "output-depends-on-history",
                                      "format": HIST_CLASSES[call[0]][0],
                                      "previous_same_class": any(h[0] == call[0] for h in hist[:pos]),
                                      "previous_same_format": any(HIST_CLASSES[h[0]][0] == HIST_CLASSES[call[0]][0]
                                                                  for h in hist[:pos])},
                                     "save() call %d of history %r -> %r, the same call in a fresh module -> %r" % (
                                         pos + 1, [list(h) for h in hist], got, expected[call]),
                                     {"part": "histories", "history": [list(h) for h in hist],
                                      "snippet": hist_snippet(hist)})
                    break
            if n in (5, 400):
                report.sample({"part": "histories", "history": [list(h) for h in hist],
                               "outputs": [expected[h][1] if expected[h][0] == "ok" else expected[h] for h in hist]})
    report.part("save-histories", states=n, transitions=evals, traces_validated_against_impl=n, evaluations=evals,
                max_calls=maxlen, classes=len(HIST_CLASSES), records_per_class=3, fresh_module_executions=_CODE[1],
                exhaustive=True)
    report.nontrivial_n(sum(1 for ln in range(2, maxlen + 1) for h in itertools.product(calls, repeat=ln)
                            if len({c for c, _ in h}) > 1))


# ------------------------------------------------------------------------------------------------
# part C: mutable record files, edit / save / reopen
# ------------------------------------------------------------------------------------------------
def csv_text(values, delimiter):
    s = io.StringIO()
    csv.writer(s, delimiter=delimiter, lineterminator="").writerow(values)
    return s.getvalue()


class RecCodec:
    """items are records of a CSV / TSV / JSON record class; atoms are the field-value lists.  The lines of the
    source file are written by the check (reference csv / json serialisation, no '\\r'); for JSON they are
    deliberately *not* what save() would write: other key order, an extra key, raw non-ASCII."""
    record = True

    def __init__(self, fmt, types):
        self.fmt, self.types = fmt, list(types)
        self.rec_cls = make_cls(fmt, types)
        self.header = cls_source(fmt, types)

    def value(self, atom):
        return self.rec_cls(*atom)

    def src_text(self, atom):
        if self.fmt == "json":
            d = {"zz": None}
            for i in reversed(range(len(atom))):
                d["f%d" % i] = atom[i]
            return json.dumps(d, ensure_ascii=False, separators=(", ", ": "))
        return csv_text(atom, "," if self.fmt == "csv" else "\t")

    def new_texts(self, value):
        return ("",)       # bytes are not judged for C13 (the statement speaks about the records read back)

    def src_texts(self, atom):
        return ("",)

    def same(self, got, exp):
        return same(got, exp)

    def ctor(self, cls, path):
        return cls(path, self.rec_cls)

    def lit(self, atom):
        return "R(%s)" % ", ".join(repr(v) for v in atom)

    def ctor_lit(self, clsname, pathlit):
        return "%s(%s, R)" % (clsname, pathlit)


REC_SPACE = {
    "csv": (["str", "int"], [[" a,", 7], ['x"y', 0]], [["", -1], [",", 10 ** 20], ["é\t ", 7]]),
    "tsv": (["str", "float"], [["\ta ", 1.5], ["é", -0.0]], [["", 0.1], ['"', 1e-320], ["\t", 1e308]]),
    "json": (["str", "any"], [["a", [1, "é"]], ["", {"k": None}]], [['"\\', True], ["é", -0.0], ["", [{}]]]),
}


def rec_spec(fmt, variant, lines, final_nl, workdir):
    types, src_atoms, new_atoms = REC_SPACE[fmt]
    codec = RecCodec(fmt, types)
    return LineFileSpec("record-file/%s/%s" % (fmt, variant), variant, codec,
                        {"variant": variant, "format": fmt, "lines": [list(a) for a in lines], "final_nl": final_nl},
                        workdir, new_atoms, new_atoms + [src_atoms[0]], endings=["\n"], byte_oracle=False,
                        dirty_oracle=False,
                        reopen=["text-record", "mmap-record", "ro-text-record", "ro-mmap-record"])


def _rf_task(arg):
    idx, fmt, variant, lines, final_nl, depth, scratch = arg
    r = Report("C13", collect_only=True)
    spec = rec_spec(fmt, variant, lines, final_nl, os.path.join(scratch, "c%d" % idx))
    res = explore(spec, r, max_depth=depth, sig_base={"part": "record-files", "format": fmt})
    shutil.rmtree(spec.workdir, ignore_errors=True)
    d = r.dump()
    d["extra"] = {"name": "record-file/%s/%s depth<=%d" % (fmt, variant, depth), "states": res["states"],
                  "transitions": res["transitions"], "saves": spec.saves, "reopens": spec.reopens,
                  "mixed": len(spec.mixed)}
    return d


def part_c(report, tier, scratch):
    depth = 2 if tier == "quick" else 3
    tasks = []
    for fmt in ("csv", "tsv", "json"):
        src_atoms = REC_SPACE[fmt][1]
        for variant in ("text-record", "mmap-record"):
            for n in range(0, 3):
                for lines in itertools.product(src_atoms, repeat=n):
                    for final_nl in (True, False):
                        if n == 0 and (final_nl or VARIANTS[variant][1]):
                            continue
                        tasks.append([fmt, variant, list(lines), final_nl, depth])
            # three source records (a middle one can be deleted, its neighbours stay file-backed), one edit less
            for lines in itertools.product(src_atoms, repeat=3):
                for final_nl in (True, False):
                    tasks.append([fmt, variant, list(lines), final_nl, depth - 1])
    tasks.sort(key=lambda t: -len(t[2]))
    tasks = [[i] + t + [scratch] for i, t in enumerate(tasks)]
    agg = {}
    for d in pmap(_rf_task, tasks):
        x = d.pop("extra")
        d["cov"]["parts"] = []
        report.merge(d)
        a = agg.setdefault(x["name"], {"source_files": 0, "states": 0, "transitions": 0, "saves": 0, "reopens": 0,
                                       "mixed": 0})
        a["source_files"] += 1
        for k in ("states", "transitions", "saves", "reopens", "mixed"):
            a[k] += x[k]
    for name, a in sorted(agg.items()):
        report.cov["parts"].append(dict(name=name, depth_bound=depth, exhaustive=True, **a))


def part_d(report, tier):
    """record classes derived from another concrete record class (extra fields), used in every order with their
    parent: per-class caches (field names / types / csv writers) must not leak along the inheritance chain"""
    n = bad = 0
    vals = {"str": ["", "a,b", "x\ty"], "int": [0, -1, 7], "float": [0.5, -0.0]}
    for fmt in ("json", "csv", "tsv"):
        for order in (("parent", "child"), ("child", "parent"), ("child",), ("parent", "child", "parent", "child")):
            for ptypes, extra in ((["str"], ["int"]), (["int", "str"], ["float"]), (["str"], ["str", "int"])):
                base = getattr(wf, BASES[fmt])
                Pc = dataclasses.make_dataclass("P", [("f%d" % i, TYPES[t]) for i, t in enumerate(ptypes)], bases=(base,))
                Cc = dataclasses.make_dataclass("Ch", [("g%d" % i, TYPES[t]) for i, t in enumerate(extra)], bases=(Pc,))
                for who in order:
                    cls, types = (Pc, ptypes) if who == "parent" else (Cc, ptypes + extra)
                    for combo in itertools.product(*[vals[t] for t in types]):
                        n += 1
                        r = observe(lambda: cls(*combo))
                        if r[0] != "ok":
                            continue
                        rec = r[1]
                        out = observe(lambda: cls.load(rec.save().rstrip("\r\n")))
                        if out[0] != "ok" or not same(out[1], rec):
                            bad += 1
                            report.violation({"part": "derived-classes", "format": fmt, "kind": "roundtrip", "who": who},
                                             "%s record class %s (order of use %r, parent fields %r, extra fields %r): "
                                             "load(save(%r)) -> %r" % (fmt, who, order, ptypes, extra, rec, out),
                                             {"engine": "seqmc", "part": "derived-classes", "format": fmt, "order": list(order),
                                              "parent_fields": ptypes, "extra_fields": extra, "values": list(map(repr, combo))})
    # a JSON record with a derived field (init=False, recomputed in __post_init__)
    def post(self):
        self.size = len(self.name)
    for fmt in ("json", "csv", "tsv"):
        Dc = dataclasses.make_dataclass("Derived", [("name", str), ("size", int, dataclasses.field(init=False, default=0))],
                                        bases=(getattr(wf, BASES[fmt]),), namespace={"__post_init__": post})
        for name in ("", "ab", 'é"'):
            n += 1
            rec = Dc(name)
            out = observe(lambda: Dc.load(rec.save().rstrip("\r\n")))
            if out[0] != "ok" or not same(out[1], rec):
                bad += 1
                report.violation({"part": "derived-classes", "format": fmt, "kind": "roundtrip", "who": "init=False field"},
                                 "%s record with a derived field (init=False, set in __post_init__): load(save(%r)) -> %r" % (fmt, rec, out),
                                 {"engine": "seqmc", "part": "derived-classes", "format": fmt, "values": [name]})
    # record classes of other legitimate shapes: fields with defaults (an empty / zero value must not turn into the
    # default), __slots__ dataclasses (no instance __dict__), a cached_property next to the fields (instance __dict__
    # holds more than the fields once it has been used)
    import functools
    for fmt in ("json", "csv", "tsv"):
        base = getattr(wf, BASES[fmt])
        shapes = []
        shapes.append(("fields with defaults", dataclasses.make_dataclass(
            "Dflt", [("f0", int), ("f1", str, dataclasses.field(default="pcs")), ("f2", float, dataclasses.field(default=1.5)),
                     ("f3", int, dataclasses.field(default=7))], bases=(base,)), None))
        shapes.append(("slots=True", dataclasses.make_dataclass(
            "Slot", [("f0", int), ("f1", str), ("f2", float), ("f3", int)], bases=(base,), slots=True), None))
        shapes.append(("cached_property used before save", dataclasses.make_dataclass(
            "Cp", [("f0", int), ("f1", str), ("f2", float), ("f3", int)], bases=(base,),
            namespace={"both": functools.cached_property(lambda self: frozenset((self.f0, self.f3)))}), "both"))
        shapes.append(("kw_only=True", dataclasses.make_dataclass(
            "Kw", [("f0", int), ("f1", str), ("f2", float), ("f3", int)], bases=(base,), kw_only=True), None))
        for what, cls, touch in shapes:
            if touch:
                getattr(cls, touch).__set_name__(cls, touch)
            for combo in itertools.product([0, -3], ["", "pcs", " a,b\t"], [0.0, 1.5, -2.25], [0, 7]):
                n += 1
                rec = cls(**dict(zip(("f0", "f1", "f2", "f3"), combo)))
                if touch:
                    getattr(rec, touch)
                out = observe(lambda: cls.load(rec.save().rstrip("\r\n")))
                if out[0] != "ok" or not same(out[1], rec):
                    bad += 1
                    report.violation({"part": "derived-classes", "format": fmt, "kind": "roundtrip", "who": what},
                                     "%s record class (%s): load(save(%r)) -> %r" % (fmt, what, rec, out),
                                     {"engine": "seqmc", "part": "derived-classes", "format": fmt, "shape": what,
                                      "values": list(map(repr, combo))})
    # very long str fields (still one line): the length is just another point of "all str fields"
    # (ascending, then descending, the classes taking turns: whatever a class remembers about an earlier long line
    # of its own or of another class must not matter)
    long_classes = {fmt: make_cls(fmt, ["int", "str"], name="Long") for fmt in ("json", "csv", "tsv")}
    for late in ("csv", "tsv"):     # classes whose FIRST long line comes after other classes have seen longer ones
        long_classes[late + "-late"] = make_cls(late, ["int", "str"], name="LongLate")
    for fmt, ln in [(f_, l_) for l_ in (65536, 131072, 131073, 400000) for f_ in ("json", "csv", "tsv")] + \
                   [(f_, l_) for l_ in (400000, 131073, 300000, 131072) for f_ in ("tsv", "csv", "json")] + \
                   [("csv-late", 200000), ("csv", 400000), ("tsv-late", 150000), ("tsv", 400000), ("csv", 300000)]:
        cls = long_classes[fmt]
        fmt = fmt.split("-")[0]
        if True:
            for ch in ("x", ","):
                n += 1
                rec = cls(ln, ch * ln)
                out = observe(lambda: cls.load(rec.save().rstrip("\r\n")))
                if out[0] != "ok" or not same(out[1], rec):
                    bad += 1
                    shown = out if out[0] != "ok" else ("ok", "<a different record>")
                    report.violation({"part": "long-field", "format": fmt, "kind": "roundtrip"},
                                     "%s record with a str field of %d x %r: load(save(r)) -> %r" % (fmt, ln, ch, shown),
                                     {"engine": "seqmc", "part": "long-field", "format": fmt, "length": ln, "char": ch,
                                      "snippet": "\n".join(cls_source(fmt, ["int", "str"]) + [
                                          "r = R(%d, %r * %d)" % (ln, ch, ln), "print(R.load(r.save()) == r)"])})
    report.part("derived-record-classes", states=n, transitions=n, evaluations=n, traces_validated_against_impl=n,
                exhaustive=True, mismatches=bad,
                what="parent/child record classes used in 4 orders x 3 field layouts x 3 formats, every value combination; "
                     "classes with field defaults / __slots__ / a used cached_property x 3 formats x 36 value tuples; "
                     "str fields of 65536..400000 characters x 3 formats")


# ------------------------------------------------------------------------------------------------
def run(report, tier):
    scratch = "/dev/shm/verif-%d-c13" % os.getpid()
    os.makedirs(scratch, exist_ok=True)
    try:
        part_a(report, tier, scratch)
        part_b(report, tier)
        part_c(report, tier, scratch)
        part_d(report, tier)
    finally:
        shutil.rmtree(scratch, ignore_errors=True)
    report.rule("A: one evaluation = one record: load(save(r)) == r (== and repr), one \\n-delimited line when written by a "
                "mutable record file's save(), and (in batches of %d) read back as r by index / slice / index list / "
                "iteration through the 4 record-file variants; non-trivial = record whose text needed quoting or an "
                "escape.  B: one evaluation = one save() call inside one of all call histories, compared with the same "
                "call in a freshly executed module.  C: one evaluation = one mutator in one distinct state of a mutable "
                "record file vs a Python list of records, plus save + reopen with the 4 variants in every distinct state; "
                "non-trivial = state mixing file-backed and in-memory lines" % BATCH)
    report.assume("value sets: 1-field records over the full string set (length <= 2 quick / <= 4 thorough over "
                  "{a , TAB \" space é \\ '}), 2-field records full x length<=1 in both orders (full = length <= 2 / <= 3), "
                  "3-field records over length <= 1 strings; ints and floats always the full sets; JSON nestings of "
                  "depth <= 2, width <= 2 over 8 representative leaves and 2 (quick) / 3 (thorough) keys")
    report.assume("JSON lines not written by save() (other key order, an additional key, raw non-ASCII) are expected to "
                  "load by field name, as the anchored mechanism states")
    report.assume("field values are free of \\r and \\n (the statement excludes line breaks; \\r belongs to C11)")


def replay(rec):
    rp = rec["replay"]
    print(rec["what"])
    print("--- snippet ---")
    print(rp.get("snippet"))
    scratch = "/dev/shm/verif-%d-c13" % os.getpid()
    os.makedirs(scratch, exist_ok=True)
    try:
        part = rp.get("part")
        if part == "roundtrip":
            r = Report("C13", collect_only=True)
            rt = RoundTrip(r, rp["format"], rp["types"], os.path.join(scratch, "replay"))
            vals = tuple(rp["values"])
            rt.one(vals)
            rt.done()
            for sig, what, _, _ in r.pending.values():
                print("REPRODUCED: %s" % what)
            if not r.pending:
                print("not reproduced on this tree")
            return 1 if r.pending else 0
        if part == "histories":
            classes = hist_classes(fresh_module())
            bad = 0
            for call in rp["history"]:
                call = tuple(call)
                got = hist_call(classes, call)
                exp = hist_call(hist_classes(fresh_module()), call)
                print(call, got, "fresh:", exp)
                bad += got != exp
            print("REPRODUCED" if bad else "not reproduced on this tree")
            return 1 if bad else 0
        init = rp["init"]
        spec = rec_spec(init["format"], init["variant"], init["lines"], init["final_nl"], os.path.join(scratch, "replay"))
        impl, model = spec.build(init)
        try:
            spec.check(impl, model)
            for op in rp["history"]:
                print("op", op)
                model = spec.step(impl, model, op)
                spec.check(impl, model)
        except Mismatch as m:
            print("REPRODUCED: %s: %s" % (m.kind, m.detail))
            return 1
        finally:
            spec.cleanup(impl)
        print("not reproduced on this tree")
        return 0
    finally:
        shutil.rmtree(scratch, ignore_errors=True)
