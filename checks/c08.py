"""C08 -- DoublyLinkedList: sequence behaviour, links, len; identity-only semantics.

Whole reachable graph (size <= MAXSIZE) of the real DoublyLinkedList under the full mutator menu, in
three payload modes (distinct / all-equal / __eq__ raises), in lock-step with a Python list of node
identities.  Plus a bounded-depth recursion probe for long runs of equal payloads.
"""
import sys

from mc.canon import canon
from mc.seqmc import Spec, Mismatch, explore, observe
from windpyutils.structures.lists import DoublyLinkedList


class Poison:
    """payload that cannot be compared (like a NumPy array in a boolean context)"""
    __slots__ = ()

    def __eq__(self, other):
        raise ValueError("payload compared")

    __hash__ = None



class Opaque:
    """distinct payload without any value: compared (if ever) by identity"""
    __slots__ = ()


def pos(model, node):
    for i, x in enumerate(model):
        if x is node:
            return i
    return "?"


def walk_check(l, model):
    """full forward + backward link walk against the list of node identities"""
    n = len(model)
    fwd = []
    node = l.head
    while node is not None and len(fwd) <= n + 1:
        fwd.append(node)
        node = node.next_node
    if [id(x) for x in fwd] != [id(x) for x in model]:
        raise Mismatch("forward-walk", "forward walk visits nodes %r, reference %r (numbers = position in reference)" % (
            [pos(model, x) for x in fwd][:8], list(range(n))))
    bwd = []
    node = l.tail
    while node is not None and len(bwd) <= n + 1:
        bwd.append(node)
        node = node.prev_node
    if [id(x) for x in bwd] != [id(x) for x in reversed(model)]:
        raise Mismatch("backward-walk", "backward walk visits nodes %r, reference %r" % (
            [pos(model, x) for x in bwd][:8], list(range(n - 1, -1, -1))))
    if n == 0 and (l.head is not None or l.tail is not None):
        raise Mismatch("head-tail", "empty list with head/tail set")
    if n and (l.head.prev_node is not None or l.tail.next_node is not None):
        raise Mismatch("head-tail", "head.prev_node / tail.next_node not None")
    for i, x in enumerate(model):
        if i + 1 < n and x.next_node.prev_node is not x:
            raise Mismatch("link", "next.prev is not self at %d" % i)
    r = observe(len, l)
    if r != ("ok", n):
        raise Mismatch("len", "len() == %r, reference %d" % (r, n))
    r = observe(lambda: [id(d) for d in l])
    ids = [id(x.data) for x in model]
    if r != ("ok", ids):
        raise Mismatch("iter", "list(l) disagrees with reference")
    # an iteration that is still open while a second one runs (nothing is modified)
    r = observe(lambda: [(id(d), [id(e) for e in l]) for d in l])
    if r != ("ok", [(i, ids) for i in ids]):
        raise Mismatch("iter", "[(d, list(l)) for d in l] disagrees with reference (two iterations at once)")


class DLLSpec(Spec):
    def __init__(self, mode, maxsize):
        self.mode = mode
        self.maxsize = maxsize
        self.name = "DoublyLinkedList/" + mode

    def initials(self):
        return [[], [0], [0, 1, 2]]

    def decoy(self):
        l = DoublyLinkedList([Opaque(), Opaque()] if self.mode == "node" else [self.payload(None), self.payload(None)])
        return l, lambda x: (canon(x), len(x), [id(d) for d in x])

    def payload(self, st):
        if self.mode == "node":
            # the payload is a node of ANOTHER list (an index of handles into it): it is data here, nothing else
            self._other_next += 1
            return self._other_nodes[self._other_next % len(self._other_nodes)]
        if self.mode == "distinct":
            return Opaque()
        if self.mode == "equal":
            return 0
        return Poison()

    def build(self, init):
        st = None
        if self.mode == "node":
            self._other = DoublyLinkedList([Opaque() for _ in range(4)])
            self._other_nodes = list(self._other.iter_nodes())
            self._other_next = -1
        data = [self.payload(st) for _ in init]
        l = DoublyLinkedList(data) if init else DoublyLinkedList()
        model = list(l.iter_nodes())
        return l, model

    def ops(self, l, model):
        n = len(model)
        ops = []
        if n < self.maxsize:
            ops += [("append",), ("prepend",)]
        if n + 2 <= self.maxsize:
            ops += [("extend",), ("pre_extend",)]
        ops += [("extend0",), ("pop_back",), ("pop_front",), ("rotate", True), ("rotate", False)]
        if n + 2 <= self.maxsize:
            # the source iterable raises after k items: whatever was added, the list must stay consistent
            ops += [("extend_raise", 0), ("extend_raise", 1), ("extend_raise", 2), ("pre_extend_raise", 1)]
        if n + 2 <= self.maxsize:
            # the source is another DoublyLinkedList: its payloads are taken, its nodes stay its own
            ops += [("extend_dll",), ("pre_extend_dll",)]
        if n >= 1:
            # the source iterable works on the list itself while it is consumed (a sequential interleaving)
            ops += [("extend_reentrant", min(n, 2))]
        for i in range(n):
            ops += [("remove", i), ("move_to_front", i), ("move_to_back", i)]
        for i in range(n):
            for j in range(n):
                ops.append(("move_after", i, j))
        return ops

    def step(self, l, model, op):
        st = None
        model = list(model)
        kind = op[0]
        if kind == "append":
            r = observe(l.append, self.payload(st))
            if r[0] != "ok":
                raise Mismatch("raises", "append -> %r" % (r,))
            model.append(r[1])
        elif kind == "prepend":
            r = observe(l.prepend, self.payload(st))
            if r[0] != "ok":
                raise Mismatch("raises", "prepend -> %r" % (r,))
            model.insert(0, r[1])
        elif kind in ("extend", "pre_extend", "extend0"):
            data = [] if kind == "extend0" else [self.payload(st), self.payload(st)]
            r = observe(l.extend if kind != "pre_extend" else l.pre_extend, data)
            if r[0] != "ok":
                raise Mismatch("raises", "%s -> %r" % (kind, r))
            # the new nodes are discovered by walking; identity of payloads checked below
            nodes = []
            node = l.head
            while node is not None and len(nodes) <= len(model) + 3:
                nodes.append(node)
                node = node.next_node
            exp = [id(x.data) for x in model]
            if kind == "pre_extend":
                exp = [id(d) for d in reversed(data)] + exp
            else:
                exp = exp + [id(d) for d in data]
            if [id(x.data) for x in nodes] != exp:
                raise Mismatch("forward-walk", "%s placed payloads wrongly" % kind)
            model = nodes
        elif kind in ("extend_dll", "pre_extend_dll"):
            data = [self.payload(st), self.payload(st)]
            src = DoublyLinkedList(data)
            src_nodes = list(src.iter_nodes())
            r = observe(l.extend if kind == "extend_dll" else l.pre_extend, src)
            if r[0] != "ok":
                raise Mismatch("raises", "%s(another DoublyLinkedList) -> %r" % (kind[:-4], r))
            nodes = []
            node = l.head
            while node is not None and len(nodes) <= len(model) + 3:
                nodes.append(node)
                node = node.next_node
            exp = [id(x.data) for x in model]
            exp = ([id(d) for d in reversed(data)] + exp) if kind == "pre_extend_dll" else (exp + [id(d) for d in data])
            if [id(x.data) for x in nodes] != exp:
                raise Mismatch("forward-walk", "%s(another DoublyLinkedList) placed payloads wrongly" % kind[:-4])
            if any(x is y for x in nodes for y in src_nodes):
                raise Mismatch("shared-node", "%s(another DoublyLinkedList): a node of the source list is now a node of "
                               "this list as well" % kind[:-4])
            try:
                walk_check(src, src_nodes)
            except Mismatch as m:
                raise Mismatch("source-disturbed", "%s(another DoublyLinkedList) changed the source list: %s: %s" % (
                    kind[:-4], m.kind, m.detail))
            model = nodes
        elif kind in ("extend_raise", "pre_extend_raise"):
            data = [self.payload(st) for _ in range(op[1])]

            class Boom(Exception):
                pass

            def src():
                for d in data:
                    yield d
                raise Boom()
            r = observe(l.extend if kind == "extend_raise" else l.pre_extend, src())
            if r != ("exc", "Boom"):
                raise Mismatch("raises", "%s with a source raising after %d items -> %r (the source's exception must "
                               "propagate)" % (kind, op[1], r))
            # the statement does not say how many of the consumed items are in the list afterwards: any prefix is
            # accepted, but the list must be consistent (walk_check in check())
            nodes = []
            node = l.head
            while node is not None and len(nodes) <= len(model) + op[1] + 1:
                nodes.append(node)
                node = node.next_node
            old = [id(x.data) for x in model]
            ok = False
            for j in range(op[1] + 1):
                exp = ([id(d) for d in reversed(data[:j])] + old) if kind == "pre_extend_raise" else (old + [id(d) for d in data[:j]])
                if [id(x.data) for x in nodes] == exp:
                    ok = True
            if not ok:
                raise Mismatch("forward-walk", "%s with a source raising after %d items left a list that is not the old "
                               "one plus a prefix of the consumed items" % (kind, op[1]))
            model = nodes
        elif kind == "extend_reentrant":
            k = op[1]
            r = observe(lambda: l.extend(l.pop_front() for _ in range(k)))
            if r[0] != "ok":
                raise Mismatch("raises", "l.extend(l.pop_front() for _ in range(%d)) -> %r" % (k, r))
            payloads = [x.data for x in model]
            payloads = payloads[k:] + payloads[:k]
            nodes = []
            node = l.head
            while node is not None and len(nodes) <= len(model) + 1:
                nodes.append(node)
                node = node.next_node
            if [id(x.data) for x in nodes] != [id(d) for d in payloads]:
                raise Mismatch("forward-walk", "l.extend(l.pop_front() for _ in range(%d)) must rotate the first %d "
                               "payloads to the back" % (k, k))
            model = nodes
        elif kind in ("pop_back", "pop_front"):
            r = observe(getattr(l, kind))
            if not model:
                if r != ("exc", "IndexError"):
                    raise Mismatch("pop-empty", "%s on empty list -> %r" % (kind, r))
            else:
                node = model.pop() if kind == "pop_back" else model.pop(0)
                if r[0] != "ok" or r[1] is not node.data:
                    raise Mismatch("pop-value", "%s -> %r, expected the payload of the removed node" % (kind, r))
        elif kind == "rotate":
            r = observe(l.rotate, op[1])
            if r[0] != "ok":
                raise Mismatch("raises", "rotate(%r) -> %r with %d elements" % (op[1], r, len(model)))
            if len(model) > 1:
                if op[1]:
                    model.append(model.pop(0))
                else:
                    model.insert(0, model.pop())
        elif kind == "remove":
            node = model.pop(op[1])
            r = observe(l.remove, node)
            if r[0] != "ok":
                raise Mismatch("raises", "remove -> %r" % (r,))
        elif kind in ("move_to_front", "move_to_back"):
            node = model.pop(op[1])
            r = observe(getattr(l, kind), node)
            if r[0] != "ok":
                raise Mismatch("raises", "%s -> %r" % (kind, r))
            if kind == "move_to_front":
                model.insert(0, node)
            else:
                model.append(node)
        elif kind == "move_after":
            node, after = model[op[1]], model[op[2]]
            r = observe(l.move_after, node, after)
            if r[0] != "ok":
                raise Mismatch("raises", "move_after(%d,%d) -> %r" % (op[1], op[2], r))
            if node is not after:
                model.remove(node) if self.mode == "distinct" else model.pop(op[1])
                model.insert([id(x) for x in model].index(id(after)) + 1, node)
        else:
            raise AssertionError(op)
        return model

    def check(self, l, model):
        walk_check(l, model)
        if self.mode == "node":
            try:
                walk_check(self._other, self._other_nodes)
            except Mismatch as m:
                raise Mismatch("payload-disturbed", "the payloads are nodes of another list; that list is no longer intact: "
                               "%s: %s" % (m.kind, m.detail))

    def key(self, l, model):
        # the whole object graph (every attribute of the list and of its nodes), node and payload
        # identities numbered by first visit: payload renaming is the only symmetry used
        return canon(l)

    def snippet(self, init, hist):
        return "DoublyLinkedList(%r) then %r (nodes addressed by position, mode=%s)" % (init, hist, self.mode)


def recursion_probe(report, n=64, limit=150):
    """long runs of equal payloads: an identity-based implementation recurses nowhere."""
    sys_limit = sys.getrecursionlimit()
    cases = 0
    for opname in ("move_after", "rotate", "move_to_front", "move_to_back", "remove", "pop_back"):
        for payload in ("equal", "distinct"):
            l = DoublyLinkedList([0] * n if payload == "equal" else list(range(n)))
            nodes = list(l.iter_nodes())

            def call():
                if opname == "move_after":
                    l.move_after(nodes[n - 10], nodes[n - 3])
                elif opname == "rotate":
                    l.rotate()
                elif opname == "pop_back":
                    l.pop_back()
                else:
                    getattr(l, opname)(nodes[n - 10])
            sys.setrecursionlimit(limit)
            try:
                r = observe(call)
            finally:
                sys.setrecursionlimit(sys_limit)
            cases += 1
            if r[0] != "ok":
                report.violation({"spec": "DoublyLinkedList/long-run", "kind": "raises", "op": opname},
                                 "%s on a %d-element list of %s payloads under recursion limit %d -> %r" % (
                                     opname, n, payload, limit, r),
                                 {"engine": "seqmc", "probe": "recursion", "op": opname, "n": n, "payload": payload})
    report.part("long-run-probe", transitions=cases, evaluations=cases, states=cases,
                traces_validated_against_impl=cases, exhaustive=True)


def run(report, tier):
    maxsize = 5 if tier == "quick" else 7
    report.rule("one evaluation = one mutator applied in one reachable list state, followed by a full forward/"
                "backward link walk + len + iteration against the reference list of node identities; "
                "non-trivial = distinct reachable (length, size-field) state in which the op menu was fully applied")
    for mode in ("distinct", "equal", "poison", "node"):
        explore(DLLSpec(mode, maxsize), report, max_depth=None)
    recursion_probe(report)
    report.assume("payload renaming is a symmetry of DoublyLinkedList (payloads are opaque), so states are merged by shape")


def replay(rec):
    print(rec["what"])
    print(rec["replay"].get("snippet"))
    return 0
