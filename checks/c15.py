"""C15 -- reorder buffers (Buffer, PrintBuffer) and the ring buffer (CircularBuffer).

Buffer        every permutation of the serials 0..n-1 x every subset of drain positions (plus a final
              drain), once draining with ``list(b)`` and once with the pool's ``for ch in b(i, x)`` idiom;
              flush() after every distinct (arrival prefix, drain choice), followed by a second epoch.
PrintBuffer   every permutation x (end, print_flush) variants into a StringIO (return value of print,
              output, len, waiting_for after every step); every history over print / flush() / clear()
              on the serial universe 0..n-1 (each serial at most once per epoch; late serials after a flush included).
CircularBuffer every put/clear sequence to the depth bound for the capacities 1..4, puts carry their
              sequence number, index probes i in [-2, c+1].

References: the sorted prefix of what has arrived (a bool list and a counter), the tail of the put history.
"""
import io
import itertools

from mc.par import pmap
from mc.report import Report
from mc.seqmc import Mismatch, observe
from windpyutils.buffers import Buffer, PrintBuffer
from windpyutils.structures.circular_buffer import CircularBuffer

PROP = "C15"

BOUNDS = {
    #            Buffer n, flush n, flush epoch-2 m, PrintBuffer perms n, histories (n, flushes, clears), ring depth
    "quick": dict(buf_n=5, flush_n=4, flush_m=2, pb_n=5, pb_hist=(4, 2, 1), pb_hist_variants=(3, 2, 1), ring_depth=8),
    "thorough": dict(buf_n=7, flush_n=5, flush_m=3, pb_n=7, pb_hist=(5, 2, 1), pb_hist_variants=(4, 2, 1), ring_depth=10),
}
PB_VARIANTS = [("\n", False), ("", False), ("|", True), ("\n", True)]
RING_CAPACITIES = (1, 2, 3, 4)


def fail(kind, op, detail, **extra):
    return Mismatch(kind, detail, dict(extra, op=op))


# ------------------------------------------------------------------------------------------------
# Buffer
# ------------------------------------------------------------------------------------------------
def pay(s, tag="p"):
    return "%s%d" % (tag, s)


def idiom(b, i, x):
    """the way the pools use the buffer"""
    got = []
    for ch in b(i, x):
        got.append(ch)
    return got


def emission_kind(r, exp):
    if r[0] != "ok":
        return "drain-raises"
    g = r[1]
    if not isinstance(g, list):
        return "drain-type"
    if len(g) > len(exp) and g[:len(exp)] == exp:
        return "emits-more-than-in-order-prefix"
    if len(g) < len(exp) and exp[:len(g)] == g:
        return "emits-less-than-in-order-prefix"
    return "emits-wrong-items"


class BufferRef:
    """which serials arrived + how many were emitted; nothing else"""

    def __init__(self, n, tag):
        self.n = n
        self.tag = tag
        self.arrived = [False] * n
        self.n_arrived = 0
        self.emitted = 0

    def arrive(self, s):
        self.arrived[s] = True
        self.n_arrived += 1

    def drain(self):
        exp = []
        while self.emitted < self.n and self.arrived[self.emitted]:
            exp.append(pay(self.emitted, self.tag))
            self.emitted += 1
        return exp

    def held(self):
        return self.n_arrived - self.emitted


def buffer_feed(b, ref, perm, mask, mode, stats):
    """feed perm into b, draining after arrival k iff bit k of mask; raises Mismatch"""
    for k, s in enumerate(perm):
        x = pay(s, ref.tag)
        drain = (mask >> k) & 1
        if drain and mode == "idiom":
            r = observe(idiom, b, s, x)
            op = "for-in-call"
        else:
            r = observe(b, s, x)
            if r[0] != "ok":
                raise fail("call-raises", "__call__", "b(%d, %r) -> %r at arrival %d" % (s, x, r, k))
            op = "list"
            if drain:
                r = observe(list, b)
        ref.arrive(s)
        if drain:
            exp = ref.drain()
            if r != ("ok", exp):
                raise fail(emission_kind(r, exp), op, "drain after arrival %d (serial %d) gave %r, expected %r" % (k, s, r, exp))
            if ref.held():
                stats["held_over_drain"] = True
            if len(exp) > 1:
                stats["multi_emit"] = True
        counters(b, ref, "after arrival %d (serial %d)" % (k, s))


def counters(b, ref, where):
    w = observe(b.waiting_for)
    if w != ("ok", ref.emitted):
        raise fail("waiting_for", "waiting_for", "waiting_for() -> %r %s, %d items were emitted" % (w, where, ref.emitted))
    l = observe(len, b)
    if l != ("ok", ref.held()):
        raise fail("len", "__len__", "len(b) -> %r %s, %d items are held back" % (l, where, ref.held()))


def buffer_case(perm, mask, mode, stats):
    n = len(perm)
    b = Buffer()
    ref = BufferRef(n, "p")
    counters(b, ref, "on a new buffer")
    buffer_feed(b, ref, perm, mask, mode, stats)
    r = observe(list, b)
    exp = ref.drain()
    if r != ("ok", exp):
        raise fail(emission_kind(r, exp), "list", "final drain gave %r, expected %r" % (r, exp))
    if ref.emitted != n:
        raise AssertionError("reference did not emit everything")
    counters(b, ref, "after the final drain")
    r = observe(list, b)
    if r != ("ok", []):
        raise fail(emission_kind(r, []), "list", "draining again after everything was emitted gave %r" % (r,))
    counters(b, ref, "after a second final drain")


def buffer_snippet(perm, mask, mode, flush_at=None, perm2=None):
    lines = ["from windpyutils.buffers import Buffer", "b = Buffer(); out = []"]
    for k, s in enumerate(perm if flush_at is None else perm[:flush_at]):
        if (mask >> k) & 1:
            if mode == "idiom":
                lines.append("for ch in b(%d, %r): out.append(ch)" % (s, pay(s)))
            else:
                lines.append("b(%d, %r); out += list(b)" % (s, pay(s)))
        else:
            lines.append("b(%d, %r)" % (s, pay(s)))
        lines.append("print(out, b.waiting_for(), len(b))")
    if flush_at is None:
        lines.append("out += list(b); print(out, b.waiting_for(), len(b))")
    else:
        lines.append("b.flush(); print(b.waiting_for(), len(b), list(b))")
        for s in perm2 or ():
            lines.append("for ch in b(%d, %r): out.append(ch)" % (s, pay(s, "q")))
        lines.append("print(out, b.waiting_for(), len(b))")
    return "\n".join(lines)


def buffer_flush_case(prefix, n, mask, mode, perm2, stats):
    """first epoch: the arrivals `prefix` of a run over 0..n-1; flush(); second epoch perm2 as on a new buffer"""
    b = Buffer()
    ref = BufferRef(n, "p")
    buffer_feed(b, ref, prefix, mask, mode, stats)
    if ref.held():
        stats["flush_discards"] = True
    r = observe(b.flush)
    if r[0] != "ok":
        raise fail("flush-raises", "flush", "flush() -> %r" % (r,))
    ref2 = BufferRef(len(perm2), "q")
    counters(b, ref2, "after flush()")
    r = observe(list, b)
    if r != ("ok", []):
        raise fail("flush-keeps-items", "flush", "list(b) right after flush() gave %r" % (r,))
    buffer_feed(b, ref2, perm2, (1 << len(perm2)) - 1, "idiom", stats)
    if ref2.emitted != len(perm2):
        raise AssertionError("reference did not emit everything")


def buffer_worker(task):
    kind = task[0]
    rep = Report(PROP, collect_only=True)
    st = {"runs": 0, "steps": 0, "nontrivial": 0}
    seen = {}
    if kind == "perm":
        _, n, prefix, mode = task
        rest = [s for s in range(n) if s not in prefix]
        for tail in itertools.permutations(rest):
            perm = prefix + tail
            for mask in range(1 if mode == "idiom" else 0, 1 << n):   # mask 0 never uses the idiom: same run as "list"
                stats = {}
                st["runs"] += 1
                st["steps"] += n + 2
                try:
                    buffer_case(perm, mask, mode, stats)
                except Mismatch as m:
                    violate(rep, seen, "Buffer", m, {"part": "buffer", "perm": list(perm), "mask": mask, "mode": mode},
                            lambda: buffer_snippet(perm, mask, mode))
                if stats.get("held_over_drain"):
                    st["nontrivial"] += 1
                if st["runs"] % 97 == 50 and n > 3 and prefix[0] != 0:
                    rep.sample({"Buffer": {"arrival": list(perm), "drain_after_arrivals": [k for k in range(n) if mask >> k & 1], "drain": mode}})
    else:
        _, n, first, mode, m_max = task
        prefixes = set()
        rest = [s for s in range(n) if s != first]
        for tail in itertools.permutations(rest):
            perm = (first,) + tail
            for k in range(1, n + 1):
                for mask in range(1 if mode == "idiom" else 0, 1 << k):
                    prefixes.add((perm[:k], mask))
        for prefix, mask in sorted(prefixes):
            for m in range(m_max + 1):
                for perm2 in itertools.permutations(range(m)):
                    stats = {}
                    st["runs"] += 1
                    st["steps"] += len(prefix) + 1 + m
                    try:
                        buffer_flush_case(prefix, n, mask, mode, perm2, stats)
                    except Mismatch as mm:
                        violate(rep, seen, "Buffer/flush", mm,
                                {"part": "buffer-flush", "prefix": list(prefix), "n": n, "mask": mask, "mode": mode, "perm2": list(perm2)},
                                lambda: buffer_snippet(prefix, mask, mode, len(prefix), perm2))
                    if stats.get("flush_discards"):
                        st["nontrivial"] += 1
    return dump(rep, seen), st


def case_size(case):
    if case["part"] == "printbuffer":
        return len(case["history"])
    if case["part"] == "ring":
        return 10 * len(case["history"]) + case["capacity"]
    return 100 * (len(case.get("perm", case.get("prefix"))) + len(case.get("perm2", ()))) + bin(case["mask"]).count("1")


def violate(rep, seen, spec, m, case, snippet):
    """record the violation; per signature the smallest case seen by this worker is the one reported"""
    sig = {"spec": spec, "kind": m.kind}
    sig.update(m.sig_extra)
    key = repr(sorted(sig.items()))
    size = case_size(case)
    if key in seen and seen[key][0] <= size:
        seen[key][3] += 1
        return
    n = seen[key][3] + 1 if key in seen else 1
    seen[key] = [size, sig, ("%s: %s: %s [case %r]" % (spec, m.kind, m.detail, case),
                             {"engine": "seqmc", "case": case, "size": size, "detail": m.detail, "snippet": snippet()}), n]


def dump(rep, seen):
    for size, sig, (what, replay), n in seen.values():
        rep.violation(sig, what, replay)
        for _ in range(n - 1):
            rep.violation(sig, "", {})
    return rep.dump()


def merge_all(report, part, keep=1):
    """merge worker dumps, keeping only `keep` of their samples (spread over the tasks) so that every driver shows some"""
    samples = [x for d, _ in part for x in d["cov"]["samples"]]
    best = {}
    for d, _ in part:
        for key, (sig, what, replay, cnt) in d["pending"].items():
            if key not in best or replay["size"] < best[key][1]["size"]:
                best[key] = (what, replay)
    for d, _ in part:
        for key, v in d["pending"].items():
            v[1], v[2] = best[key]
    for d, _ in part:
        d["cov"]["samples"] = []
        report.merge(d)
    if not keep:
        return
    step = max(1, len(samples) // keep)
    for x in samples[step // 2::step][:keep]:
        report.sample(x, limit=8)


def run_buffer(report, b):
    tasks = []
    for n in range(b["buf_n"] + 1):
        for mode in ("list", "idiom"):
            for prefix in itertools.permutations(range(n), min(2, n)):
                tasks.append(("perm", n, prefix, mode))
    n_perm_tasks = len(tasks)
    for n in range(1, b["flush_n"] + 1):
        for mode in ("list", "idiom"):
            for first in range(n):
                tasks.append(("flush", n, first, mode, b["flush_m"]))
    res = pmap(buffer_worker, tasks)
    for name, part in (("Buffer/permutations-x-drain-subsets", res[:n_perm_tasks]), ("Buffer/flush", res[n_perm_tasks:])):
        runs = sum(st["runs"] for _, st in part)
        steps = sum(st["steps"] for _, st in part)
        nt = sum(st["nontrivial"] for _, st in part)
        merge_all(report, part, 2 if "perm" in name else 0)
        report.part(name, states=runs, transitions=steps, traces_validated_against_impl=runs, evaluations=steps,
                    nontrivial=nt, exhaustive=True,
                    bound=("n<=%d" % b["buf_n"]) if "perm" in name else ("n<=%d, second epoch m<=%d" % (b["flush_n"], b["flush_m"])))
        report.nontrivial_n(nt)
    # the flush() prefixes with the empty arrival prefix (flush on a new buffer)
    rep = Report(PROP, collect_only=True)
    seen = {}
    runs = 0
    for m in range(b["flush_m"] + 1):
        for perm2 in itertools.permutations(range(m)):
            runs += 1
            try:
                buffer_flush_case((), 0, 0, "list", perm2, {})
            except Mismatch as mm:
                violate(rep, seen, "Buffer/flush", mm, {"part": "buffer-flush", "prefix": [], "n": 0, "mask": 0, "mode": "list",
                                                        "perm2": list(perm2)}, lambda: buffer_snippet((), 0, "list", 0, perm2))
    merge_all(report, [(dump(rep, seen), None)], 0)
    report.part("Buffer/flush-on-new", states=runs, transitions=runs, traces_validated_against_impl=runs, evaluations=runs,
                exhaustive=True)


# ------------------------------------------------------------------------------------------------
# PrintBuffer
# ------------------------------------------------------------------------------------------------
def pb_value(epoch, serial):
    """the printed strings: tagged with epoch and serial, except serial 1, which is an EMPTY line (a legitimate value)"""
    return "" if serial == 1 else "<%d.%d>" % (epoch, serial)


class PBRef:
    def __init__(self):
        self.wait = 0
        self.held = {}
        self.out = []
        self.flushed = False

    def print(self, s, v):
        if s == self.wait:
            self.out.append(v)
            self.wait += 1
            while self.wait in self.held:
                self.out.append(self.held.pop(self.wait))
                self.wait += 1
            return True
        self.held[s] = v
        return False

    def flush(self):
        if self.held:
            for s in sorted(self.held):
                self.out.append(self.held[s])
            self.wait = max(self.held) + 1
            self.held = {}
        self.flushed = True

    def clear(self):
        self.held = {}
        self.wait = 0


def pb_observe(pb, out, ref, end, where, op):
    r = observe(out.getvalue)
    exp = "".join(v + end for v in ref.out)
    if r != ("ok", exp):
        got = r[1] if r[0] == "ok" else r
        if isinstance(got, str) and len(got) > len(exp) and got.startswith(exp):
            kind = "prints-more"
        elif isinstance(got, str) and len(got) < len(exp) and exp.startswith(got):
            kind = "prints-less"
        else:
            kind = "prints-wrong"
        raise fail(kind, op, "output is %r %s, expected %r" % (got, where, exp))
    w = observe(lambda: pb.waiting_for)
    if w != ("ok", ref.wait):
        raise fail("waiting_for", op, "waiting_for -> %r %s, expected %d" % (w, where, ref.wait))
    l = observe(len, pb)
    if l != ("ok", len(ref.held)):
        raise fail("len", op, "len(pb) -> %r %s, %d items are held back" % (l, where, len(ref.held)))


def pb_history(variant, hist, stats):
    """hist: ("p", serial) | ("f",) | ("c",); values are tagged with the epoch (number of clears so far)"""
    end, pflush = variant
    # a second buffer that is alive at the same time and holds one value back: buffers are independent objects
    decoy_out = io.StringIO()
    decoy = PrintBuffer(decoy_out)
    decoy.print(3, "decoy")
    out = io.StringIO()
    pb = PrintBuffer(out, pflush, end) if variant != PB_VARIANTS[0] else PrintBuffer(out)
    ref = PBRef()
    epoch = 0
    pb_observe(pb, out, ref, end, "on a new buffer", "init")
    for k, op in enumerate(hist):
        where = "after step %d %r" % (k, op)
        stats["failed_at"] = k
        if op[0] == "p":
            v = pb_value(epoch, op[1])
            r = observe(pb.print, op[1], v)
            exp = ref.print(op[1], v)
            if not exp:
                stats["held"] = True
            if r[0] != "ok" or r[1] is not exp:
                raise fail("print-return", "print", "print(%d, %r) -> %r %s, expected %r" % (op[1], v, r, where, exp))
            name = "print"
        elif op[0] == "f":
            if ref.held:
                stats["flush_gap"] = True
            r = observe(pb.flush)
            ref.flush()
            if r[0] != "ok":
                raise fail("flush-raises", "flush", "flush() -> %r %s" % (r, where))
            name = "flush"
        else:
            if ref.held:
                stats["clear_discards"] = True
            r = observe(pb.clear)
            ref.clear()
            epoch += 1
            if r[0] != "ok":
                raise fail("clear-raises", "clear", "clear() -> %r %s" % (r, where))
            name = "clear"
        pb_observe(pb, out, ref, end, where, name)
        d = (observe(len, decoy), observe(lambda: decoy.waiting_for), decoy_out.getvalue())
        if d != (("ok", 1), ("ok", 0), ""):
            raise fail("other-buffer-disturbed", name, "another PrintBuffer holding serial 3 shows (len, waiting_for, output) = %r %s "
                       "of this buffer" % (d, where))
    stats["failed_at"] = None
    if not ref.flushed and epoch == 0 and ref.wait != len(ref.out):
        raise AssertionError("reference: waiting_for is not the number emitted")


def pb_snippet(variant, hist):
    end, pflush = variant
    lines = ["import io", "from windpyutils.buffers import PrintBuffer",
             "out = io.StringIO(); pb = PrintBuffer(out, %r, %r)" % (pflush, end)]
    epoch = 0
    for op in hist:
        if op[0] == "p":
            lines.append("print(pb.print(%d, %r), repr(out.getvalue()), pb.waiting_for, len(pb))" % (op[1], pb_value(epoch, op[1])))
        elif op[0] == "f":
            lines.append("pb.flush(); print(repr(out.getvalue()), pb.waiting_for, len(pb))")
        else:
            epoch += 1
            lines.append("pb.clear(); print(repr(out.getvalue()), pb.waiting_for, len(pb))")
    return "\n".join(lines)


def pb_menu(n, max_f, max_c, state):
    """computed on the reference only: unfed serials (one that a flush() skipped and that arrives late is, as print()
    documents, stored for later like any serial that is not the awaited one), flush() while fewer than max_f flushes,
    clear() while fewer than max_c clears"""
    fed, wait, held, f, c = state
    ops = [("p", s) for s in range(n) if s not in fed]       # also a serial that a flush() has skipped and that arrives late
    if f < max_f:
        ops.append(("f",))
    if c < max_c:
        ops.append(("c",))
    return ops


PB_ROOT = (frozenset(), 0, frozenset(), 0, 0)


def pb_apply(state, op):
    fed, wait, held, f, c = state
    if op[0] == "p":
        s = op[1]
        if s == wait:
            wait += 1
            held = set(held)
            while wait in held:
                held.discard(wait)
                wait += 1
            return (fed | {s}, wait, frozenset(held), f, c)
        return (fed | {s}, wait, held | {s}, f, c)
    if op[0] == "f":
        return (fed, (max(held) + 1) if held else wait, frozenset(), f + 1, c)
    return (frozenset(), 0, frozenset(), f, c + 1)


def pb_prefixes(n, max_f, max_c, depth):
    """all histories of exactly `depth` ops (or maximal shorter ones), and the number of shorter histories"""
    level = [((), PB_ROOT)]
    shorter = 0
    done = []
    for _ in range(depth):
        nxt = []
        for hist, state in level:
            ops = pb_menu(n, max_f, max_c, state)
            if not ops:
                done.append(hist)
                continue
            shorter += 1
            for op in ops:
                nxt.append((hist + (op,), pb_apply(state, op)))
        level = nxt
    return done + [h for h, _ in level], shorter


def pb_leaves(n, max_f, max_c, prefix):
    """maximal histories extending `prefix`, and the number of distinct histories in that subtree (prefix included)"""
    leaves = []
    nodes = [0]

    def rec(hist, state):
        nodes[0] += 1
        ops = pb_menu(n, max_f, max_c, state)
        if not ops:
            leaves.append(hist)
        for op in ops:
            rec(hist + (op,), pb_apply(state, op))

    state = PB_ROOT
    for op in prefix:
        state = pb_apply(state, op)
    rec(tuple(prefix), state)
    return leaves, nodes[0]


def pb_worker(task):
    rep = Report(PROP, collect_only=True)
    seen = {}
    st = {"runs": 0, "steps": 0, "nontrivial": 0, "states": 0}
    if task[0] == "perm":
        _, n, first, variant = task
        rest = [s for s in range(n) if s != first]
        for tail in itertools.permutations(rest):
            perm = ((first,) + tail) if n else ()
            # a flush() at the very end must print nothing (everything was printed) and keep waiting_for
            hist = tuple(("p", s) for s in perm) + (("f",),)
            stats = {}
            st["runs"] += 1
            st["steps"] += len(hist)
            st["states"] += 1
            try:
                pb_history(variant, hist, stats)
            except Mismatch as m:
                cut = hist[:stats["failed_at"] + 1] if stats.get("failed_at") is not None else hist
                violate(rep, seen, "PrintBuffer", m, {"part": "printbuffer", "variant": list(variant), "history": [list(o) for o in cut]},
                        lambda: pb_snippet(variant, cut))
            if stats.get("held"):
                st["nontrivial"] += 1
            if st["runs"] % 1009 == 1 and n > 2:
                rep.sample({"PrintBuffer": {"end": variant[0], "print_flush": variant[1], "history": [list(o) for o in hist]}})
    else:
        _, n, max_f, max_c, prefix, variant = task
        leaves, nodes = pb_leaves(n, max_f, max_c, prefix)
        st["states"] = nodes
        for hist in leaves:
            stats = {}
            st["runs"] += 1
            st["steps"] += len(hist)
            try:
                pb_history(variant, hist, stats)
            except Mismatch as m:
                cut = hist[:stats["failed_at"] + 1] if stats.get("failed_at") is not None else hist
                violate(rep, seen, "PrintBuffer/history", m,
                        {"part": "printbuffer", "variant": list(variant), "history": [list(o) for o in cut]},
                        lambda: pb_snippet(variant, cut))
            if stats.get("flush_gap") or stats.get("clear_discards"):
                st["nontrivial"] += 1
            if st["runs"] % 4001 == 1:
                rep.sample({"PrintBuffer": {"end": variant[0], "print_flush": variant[1], "history": [list(o) for o in hist]}})
    return dump(rep, seen), st


def run_printbuffer(report, b):
    tasks = []
    for variant in PB_VARIANTS:
        for n in range(b["pb_n"] + 1):
            for first in range(max(n, 1)):
                tasks.append(("perm", n, first, variant))
    n_perm = len(tasks)
    hist_specs = [(b["pb_hist"], PB_VARIANTS[0])] + [(b["pb_hist_variants"], v) for v in PB_VARIANTS[1:]]
    shorter = 0
    for (n, max_f, max_c), variant in hist_specs:
        prefixes, sh = pb_prefixes(n, max_f, max_c, 2)
        shorter += sh
        for prefix in prefixes:
            tasks.append(("hist", n, max_f, max_c, prefix, variant))
    res = pmap(pb_worker, tasks)
    for name, part, extra in (("PrintBuffer/permutations-x-variants", res[:n_perm], {"bound": "n<=%d" % b["pb_n"], "variants": len(PB_VARIANTS)}),
                              ("PrintBuffer/print-flush-clear-histories", res[n_perm:],
                               {"bound": "default variant: serials<%d, <=%d flush, <=%d clear; other variants: serials<%d, <=%d flush, <=%d clear"
                                         % (b["pb_hist"] + b["pb_hist_variants"])})):
        runs = sum(st["runs"] for _, st in part)
        steps = sum(st["steps"] for _, st in part)
        states = sum(st["states"] for _, st in part) + (shorter if "histories" in name else 0)
        nt = sum(st["nontrivial"] for _, st in part)
        merge_all(report, part, 2)
        report.part(name, states=states, transitions=steps, traces_validated_against_impl=runs, evaluations=steps,
                    nontrivial=nt, exhaustive=True, **extra)
        report.nontrivial_n(nt)


# ------------------------------------------------------------------------------------------------
# CircularBuffer
# ------------------------------------------------------------------------------------------------
def ring_case(c, hist, stats):
    """hist: string over 'p' (put the next sequence number) / 'c' (clear); full observation after the last op
    (every prefix is a case of its own)"""
    r = observe(CircularBuffer, c)
    if r[0] != "ok":
        raise fail("init-raises", "__init__", "CircularBuffer(%d) -> %r" % (c, r))
    b = r[1]
    seq = 0
    window = []
    for k, op in enumerate(hist):
        if op == "p":
            r = observe(b.put, seq)
            if len(window) >= c:
                stats["overwrite"] = True
            window.append(seq)
            seq += 1
        else:
            r = observe(b.clear)
            if window:
                stats["clear_nonempty"] = True
            window = []
        if r[0] != "ok":
            raise fail("op-raises", "put" if op == "p" else "clear", "step %d (%s) -> %r" % (k, op, r))
    exp = window[-c:]
    last = {"p": "put", "c": "clear"}.get(hist[-1:], "init")
    r = observe(list, b)
    if r != ("ok", exp):
        raise fail("content", last, "list(b) -> %r, the last min(k, c) puts since the last clear are %r" % (r, exp))
    r = observe(len, b)
    if r != ("ok", len(exp)):
        raise fail("len", last, "len(b) -> %r, expected %d" % (r, len(exp)))
    r = observe(lambda: b.max_size)
    if r != ("ok", c):
        raise fail("max_size", last, "max_size -> %r, expected %d" % (r, c))
    for i in range(-2, c + 2):
        r = observe(lambda: b[i])
        if 0 <= i < len(exp):
            if r != ("ok", exp[i]):
                raise fail("getitem", last, "b[%d] -> %r, expected %r (content %r)" % (i, r, exp[i], exp))
        elif r != ("exc", "IndexError"):
            raise fail("index-not-rejected", last, "b[%d] -> %r with %d items, expected IndexError" % (i, r, len(exp)),
                       negative=i < 0)
    return c + 7   # observations made


def ring_snippet(c, hist):
    lines = ["from windpyutils.structures.circular_buffer import CircularBuffer", "b = CircularBuffer(%d)" % c]
    seq = 0
    for op in hist:
        if op == "p":
            lines.append("b.put(%d)" % seq)
            seq += 1
        else:
            lines.append("b.clear()")
    lines.append("print(list(b), len(b), b.max_size)")
    lines.append("for i in range(-2, %d):\n    try: print(i, b[i])\n    except IndexError: print(i, 'IndexError')" % (c + 2))
    return "\n".join(lines)


def run_ring(report, depth):
    rep = Report(PROP, collect_only=True)
    seen = {}
    cases = obs = nt = 0
    for c in RING_CAPACITIES:
        for d in range(depth + 1):
            for hist in itertools.product("pc", repeat=d):
                hist = "".join(hist)
                stats = {}
                cases += 1
                try:
                    obs += ring_case(c, hist, stats)
                except Mismatch as m:
                    violate(rep, seen, "CircularBuffer", m, {"part": "ring", "capacity": c, "history": hist},
                            lambda: ring_snippet(c, hist))
                if stats:
                    nt += 1
                if cases % 997 == 1 and d > 3:
                    rep.sample({"CircularBuffer": {"capacity": c, "history": hist}})
    merge_all(report, [(dump(rep, seen), None)], 2)
    report.part("CircularBuffer/put-clear-sequences", states=cases, transitions=cases, traces_validated_against_impl=cases,
                evaluations=obs, nontrivial=nt, exhaustive=True, bound="capacity 1..4, depth<=%d, probes i in [-2, c+1]" % depth)
    report.nontrivial_n(nt)


# ------------------------------------------------------------------------------------------------
def run(report, tier):
    b = BOUNDS[tier]
    report.rule("Buffer: one run = one (arrival permutation, subset of drain positions, drain idiom), every drain compared with "
                "the in-order prefix of what has arrived and waiting_for()/len() checked after every arrival (evaluations = "
                "steps so checked); non-trivial = an item was still held back after a drain. PrintBuffer: states = distinct "
                "histories (prefixes), executions = maximal histories replayed with return value / output / waiting_for / len "
                "checked after every step; non-trivial = print() held an item back resp. flush()/clear() met held items. "
                "CircularBuffer: one case = one put/clear history x capacity, evaluations = observations (list, len, max_size, "
                "c+4 index probes); non-trivial = an old item was overwritten or a non-empty buffer cleared.")
    run_buffer(report, b)
    run_printbuffer(report, b)
    run_ring(report, b["ring_depth"])
    run_long(report)
    report.assume("serials are fed at most once per epoch (duplicates are documented as overwritten and are not judged); a "
                  "serial skipped by PrintBuffer.flush() may arrive late: print() documents that it is stored for later")
    report.assume("a drain is a complete iteration of the buffer; abandoning the generator half-way is not judged")


def run_long(report):
    """a few long arrival orders (the property holds for every n): in order, reversed (one cascade releases
    everything), and blocks of three reversed -- serial numbers are freshly computed ints well beyond 256"""
    n_cases = 0
    for cls in ("Buffer", "PrintBuffer"):
        for name, n, order in (("in-order", 400, lambda n: list(range(n))),
                               ("reversed", 1500, lambda n: list(range(n - 1, -1, -1))),
                               ("blocks-of-3-reversed", 402, lambda n: [b * 3 + j for b in range(n // 3) for j in (2, 1, 0)])):
            serials = [int(str(x)) for x in order(n)]        # fresh int objects, not the cached small ints
            n_cases += 1
            if cls == "Buffer":
                b = Buffer()
                outl = []

                def feed():
                    for s_ in serials:
                        for item in b(s_, "v%d" % s_):
                            outl.append(item)
                    return outl
                r = observe(feed)
                exp = ["v%d" % i for i in range(n)]
                ok = r == ("ok", exp) and observe(b.waiting_for) == ("ok", n) and observe(len, b) == ("ok", 0)
                got = (r if r[0] != "ok" else ("ok", "%d items, last %r" % (len(r[1]), r[1][-1:])), observe(b.waiting_for), observe(len, b))
            else:
                out = io.StringIO()
                pb = PrintBuffer(out)

                def feed():
                    for s_ in serials:
                        pb.print(s_, "v%d" % s_)
                    return out.getvalue()
                r = observe(feed)
                exp = "".join("v%d\n" % i for i in range(n))
                ok = r == ("ok", exp) and observe(lambda: pb.waiting_for) == ("ok", n) and observe(len, pb) == ("ok", 0)
                got = (r if r[0] != "ok" else ("ok", "%d lines" % r[1].count("\n")), observe(lambda: pb.waiting_for), observe(len, pb))
            if not ok:
                report.violation({"spec": cls, "part": "long-run", "kind": "long-run", "order": name},
                                 "%s fed %d serials %s: (output, waiting_for, len) = %r, expected all %d items in order, "
                                 "waiting_for %d, len 0" % (cls, n, name, got, n, n),
                                 {"engine": "input-enum", "part": "long-run", "class": cls, "n": n, "order": name})
    report.part("long-runs", states=n_cases, transitions=n_cases, evaluations=n_cases, traces_validated_against_impl=n_cases,
                exhaustive=True, what="Buffer and PrintBuffer: 400 serials in order, 1500 reversed, 402 in reversed blocks of three")


def replay(rec):
    if rec["replay"].get("part") == "long-run":
        print(rec["what"])
        return 1
    case = rec["replay"]["case"]
    print(rec["what"])
    print("--- snippet ---")
    print(rec["replay"].get("snippet"))
    try:
        if case["part"] == "buffer":
            buffer_case(tuple(case["perm"]), case["mask"], case["mode"], {})
        elif case["part"] == "buffer-flush":
            buffer_flush_case(tuple(case["prefix"]), case["n"], case["mask"], case["mode"], tuple(case["perm2"]), {})
        elif case["part"] == "printbuffer":
            pb_history(tuple(case["variant"]), tuple(tuple(o) for o in case["history"]), {})
        else:
            ring_case(case["capacity"], case["history"], {})
    except Mismatch as m:
        print("--- reproduced: %s: %s" % (m.kind, m.detail))
        return 1
    print("--- not reproduced on this tree")
    return 0
