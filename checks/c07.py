"""C07 -- LFUCache: never exceeds max_size, returns the latest stored value, evicts a least frequently used key.

Use counts are unbounded, so the exploration is depth-bounded with state de-duplication: capacities 1 and 2 to
8 (quick) / 10 (thorough) operations, capacity 3 to 4 / 6 operations (its state count triples per level:
15 160 states / 330 k transitions at depth 4, 1.1 M transitions at depth 5); keys {0..capacity}, values {a,b};
two initial configurations per capacity (empty; "warm" = keys 0..capacity-1 stored and looked up once, all
counts 2, which puts a full cache with counts > 1 at depth 0); the same MutableMapping menu as C06.  Every
operation is applied in every state reached within the bound.

Reference: a set of states key -> (value, count).  Count 1 at insertion, +1 for every later store or
successful lookup (c[k], get, setdefault on a present key); `k in c` may or may not count; the look-ups
performed by values()/items()/== may or may not count, independently per key (the statement is silent);
popitem may take any entry.  The order among keys of equal count is not fixed.  Oracle, exactly the statement:
* after c[k]=v (also through update/setdefault) a lookup of k returns v: every key is looked up on a deep copy
  after every operation, and every lookup operation of the menu is compared with the reference value;
* a store of a new key into a full cache removes exactly one key and that key has the minimal count in some
  reference state (the surviving reference states are those in which it was minimal);
* list(c) is non-decreasing in count in some reference state; len(c) <= max_size and agrees;
* keys(), values(), items(), == terminate (step budget) and agree with the content;
* internal agreement: the dict's keys == the reference keys, the frequency list visits exactly the dict's nodes
  with consistent links and size (C08 walker).
"""
import itertools

from checks.c06_common import CacheSpec, VALUES, PURE, VIEWS, explore_levels, replay_record
from windpyutils.structures.caches import LFUCache


class LFUSpec(CacheSpec):
    iterlook_views = ("keys",)      # every look-up raises a use count: one view keeps the state space in bounds
    cls = LFUCache
    cls_name = "LFUCache"
    import_line = "from windpyutils.structures.caches import LFUCache"

    # reference state: tuple of (key, value, count) sorted by key
    def content(self, s):
        return {k: v for k, v, _ in s}

    def consistent(self, s, order):
        cnt = {k: n for k, _, n in s}
        seq = [cnt[k] for k in order]
        return all(a <= b for a, b in zip(seq, seq[1:]))

    def prefix(self, name):
        if name == "warm":
            ks = range(self.capacity)
            return [("set", k, VALUES[0]) for k in ks] + [("get", k) for k in ks]
        return []

    @staticmethod
    def _bump(s, k):
        return tuple((a, v, n + 1) if a == k else (a, v, n) for a, v, n in s)

    @staticmethod
    def _remove(s, k):
        return tuple(e for e in s if e[0] != k)

    def _store(self, s, k, v):
        """-> list of allowed successors (several when more than one key has the minimal count)"""
        if any(e[0] == k for e in s):
            return [tuple((a, v, n + 1) if a == k else (a, w, n) for a, w, n in s)]
        if len(s) < self.capacity:
            return [tuple(sorted(s + ((k, v, 1),)))]
        least = min(n for _, _, n in s)
        return [tuple(sorted(self._remove(s, victim) + ((k, v, 1),))) for victim, _, n in s if n == least]

    def successors(self, s, op, got):
        kind = op[0]
        present = len(op) > 1 and any(e[0] == op[1] for e in s)
        if kind in ("set", "update"):
            return self._store(s, op[1], op[2])
        if kind == "update2":
            return [s2 for s1 in self._store(s, op[1], VALUES[0]) for s2 in self._store(s1, op[2], VALUES[1])]
        if kind == "update3":
            return [s3 for s1 in self._store(s, op[1], VALUES[0]) for s2 in self._store(s1, op[2], VALUES[1])
                    for s3 in self._store(s2, op[2], VALUES[0])]
        if kind in ("get", "getd"):
            return [self._bump(s, op[1])] if present else [s]
        if kind == "setdefault":
            return [self._bump(s, op[1])] if present else self._store(s, op[1], op[2])
        if kind == "in":
            return [s, self._bump(s, op[1])] if present else [s]
        if kind in ("del", "pop", "popd"):
            return [self._remove(s, op[1])]
        if kind == "popitem":
            return [self._remove(s, got[1][0])] if got[0] == "ok" else [s]
        if kind == "clear":
            return [()]
        if kind in PURE:
            return [s]
        if kind in VIEWS:
            out = []
            for bits in itertools.product((0, 1), repeat=len(s)):
                out.append(tuple((k, v, n + b) for (k, v, n), b in zip(s, bits)))
            return out
        raise AssertionError(op)

    def interesting(self, model):
        # full cache whose counts are not all equal: the victim of the next store is a real choice
        return any(len(s) >= self.capacity and len({n for _, _, n in s}) > 1 for s in model)


def make_spec(capacity):
    return LFUSpec(capacity, inits=("empty", "warm"))


def run(report, tier):
    depths = {1: 8, 2: 8, 3: 3} if tier == "quick" else {1: 10, 2: 9, 3: 4}
    report.rule("one evaluation = one operation of the mapping menu applied in one cache state reached within the "
                "depth bound, followed by list(c) against the reference set (victim has a minimal count, order "
                "non-decreasing in count), len, dict/list/link agreement and a look-up of every key on a deep copy; "
                "non-trivial = distinct reached state of a full cache with unequal counts")
    for cap in (1, 2, 3):
        res = explore_levels(make_spec, (cap,), report, max_depth=depths[cap])
        st = res["stats"]
        if not report.violations and not report.known_hits:
            for f in ("evict", "overwrite", "in_present") + (("view2", "ambiguous") if cap >= 2 else ()):
                if not st.get(f):
                    report.harness_error("vacuous: LFUCache/c=%d never exercised '%s'" % (cap, f))
        if st.get("no_internals"):
            report.assume("LFUCache no longer has .cache/.list with head: internal agreement not checked")
    report.cov["depth_bound"] = {"capacity %d" % c: d for c, d in depths.items()}
    report.assume("histories longer than the depth bound (from the empty and the warm configuration) are not covered")
    report.assume("values are opaque to the cache; keys are hashable ints, capacity+1 of them suffice to overflow")
    report.assume("the look-ups performed by values()/items()/== may or may not count as uses, per key (statement silent)")


def replay(rec):
    return replay_record(make_spec, rec)
