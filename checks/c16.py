"""C16 -- ImmutIntervalMap: construction accepts exactly the pairwise disjoint valid closed intervals,
lookup == linear scan, `in`, len, ascending iteration.

Input space (all of it is enumerated): every sequence of <= N *distinct* intervals (start, end) with both
ends on the grid {0..G} -- degenerate (start == end) and inverted (start > end) ones included -- i.e.
every set of <= N intervals in every dict insertion order; once on the integer grid and once on the
halved grid {0, 0.5, .., G/2} (floats).  quick: G=4, N=3; thorough: G=6, N=4.  Every interval carries its
own value.  For every constructed map every probe key on the half-step grid from min-half to max+half
(ints stay ints on the integer grid) is looked up with [] and `in`.

Reference: the defining list of intervals, scanned linearly.
"""
import itertools
import math

from mc.par import pmap
from mc.report import Report
from mc.seqmc import observe
from windpyutils.structures.maps import ImmutIntervalMap

CLS = "ImmutIntervalMap"


BIG = 10 ** 12


def grid_points(kind, g):
    if kind == "big":       # large integers a few units apart (relative distance 1e-12)
        return [0, BIG, BIG + 1, BIG + 5, BIG + 10, 2 * BIG]
    if kind == "ulp":       # floats one unit in the last place apart
        return [1.0, math.nextafter(1.0, 2.0), 2.0, math.nextafter(2.0, 3.0), 3.0]
    return list(range(g + 1)) if kind == "int" else [k / 2 for k in range(g + 1)]


def probe_keys(kind, g):
    """half-step grid from (min - half step) to (max + half step); for the big / ulp grids every grid point and its
    immediate neighbours on both sides"""
    if kind == "big":
        return sorted({p + d for p in grid_points(kind, g) for d in (-1, 0, 1)})
    if kind == "ulp":
        return sorted({q for p in grid_points(kind, g) for q in (math.nextafter(p, -math.inf), p, math.nextafter(p, math.inf))})
    if kind == "int":
        return [(k // 2 if k % 2 == 0 else k / 2) for k in range(-1, 2 * g + 2)]
    return [k / 4 for k in range(-1, 2 * g + 2)]


DECOY = None


def value_of(iv):
    if iv[0] == iv[1] == 1:
        return None               # None is an ordinary value: the interval [1, 1] maps to it
    return "v%r_%r" % iv


def shares_point(a, b):
    return a[0] <= b[1] and b[0] <= a[1]


def ref_constructible(ivs):
    for s, e in ivs:
        if s > e:
            return False
    for i in range(len(ivs)):
        for j in range(i + 1, len(ivs)):
            if shares_point(ivs[i], ivs[j]):
                return False
    return True


def ref_lookup(ivs, key):
    """-> list of values of all intervals containing key (0 or 1 entries for a constructible set)"""
    return [value_of(iv) for iv in ivs if iv[0] <= key <= iv[1]]


def invalid_class(ivs):
    if any(s > e for s, e in ivs):
        return "inverted-interval"
    only_touch = True
    for a, b in itertools.combinations(ivs, 2):
        if shares_point(a, b) and not (a[1] == b[0] or b[1] == a[0]) :
            only_touch = False
    return "share-an-end-point-only" if only_touch else "overlap"


def key_class(ivs, key):
    for s, e in ivs:
        if s <= key <= e:
            if s == e:
                return "key==start==end"
            if key == s:
                return "key==start"
            if key == e:
                return "key==end"
            return "key-strictly-inside"
    if not ivs:
        return "empty-map"
    if key < min(s for s, _ in ivs):
        return "key-below-all"
    if key > max(e for _, e in ivs):
        return "key-above-all"
    return "key-in-gap"


def snippet(ivs, tail):
    return ("from windpyutils.structures.maps import ImmutIntervalMap\n"
            "m = ImmutIntervalMap({%s})\n%s" % (", ".join("%r: %r" % (iv, value_of(iv)) for iv in ivs), tail))


def judge(r, kind, ivs, probes, cnt):
    """one input: construct, then every probe; r = Report (collect_only in workers)"""
    mapping = {}
    for iv in ivs:
        mapping[iv] = value_of(iv)
    ok = ref_constructible(ivs)
    res = observe(ImmutIntervalMap, mapping)
    cnt["maps"] += 1
    cnt["ops"] += 1
    base = {"engine": "seqmc", "class": CLS, "grid": kind}
    rep = {"engine": "seqmc", "class": CLS, "grid": kind, "intervals": [list(iv) for iv in ivs]}
    if not ok:
        cnt["invalid_" + invalid_class(ivs)] += 1
        if res != ("exc", "KeyError"):
            r.violation(dict(base, op="construct", kind="invalid-accepted" if res[0] == "ok" else "wrong-exception",
                             got=(res[1] if res[0] == "exc" else res[0]), when=invalid_class(ivs)),
                        "ImmutIntervalMap(%r) -> %s, expected KeyError (%s)" % (
                            mapping, "constructed" if res[0] == "ok" else res, invalid_class(ivs)),
                        dict(rep, snippet=snippet(ivs, "# expected KeyError")))
        return
    cnt["valid"] += 1
    if len(ivs) >= 2:
        cnt["valid_multi"] += 1
    for key in probes:       # anti-vacuity classes are counted on the reference side, independent of the impl
        cnt["kc_" + key_class(ivs, key)] += 1
        cnt["hit" if ref_lookup(ivs, key) else "miss"] += 1
    if res[0] != "ok":
        r.violation(dict(base, op="construct", kind="valid-rejected", got=res[1] if len(res) > 1 else res[0],
                         when="has-single-point-interval" if any(s == e for s, e in ivs) else "proper-intervals"),
                    "ImmutIntervalMap(%r) -> %r, expected a map (intervals valid and pairwise disjoint)" % (mapping, res),
                    dict(rep, snippet=snippet(ivs, "# expected to construct")))
        return
    m = res[1]
    # the caller keeps its dict and goes on using it: the map is a value of its own ("Immut"), so what happens to the
    # dict afterwards -- an interval added far away, a value replaced, an interval dropped -- is none of its business
    shown = dict(mapping)
    far = max([e for _, e in ivs] + [0]) + 1000
    mapping[(far, far + 1)] = "added-later"
    if ivs:
        mapping[ivs[0]] = "replaced-later"
        if len(ivs) > 1:
            del mapping[ivs[-1]]
    mapping = shown
    # a second map that has been alive since the start of the run must not be affected by building this one
    global DECOY
    if DECOY is None:
        DECOY = ImmutIntervalMap({(0, 1): "d0", (3, 4): "d1"})
    dec = (observe(DECOY.__getitem__, 1), observe(DECOY.__getitem__, 2), observe(DECOY.__getitem__, 3.5), observe(list, DECOY))
    if dec != (("ok", "d0"), ("exc", "KeyError"), ("ok", "d1"), ("ok", [((0, 1), "d0"), ((3, 4), "d1")])):
        r.violation(dict(base, op="other-instance", kind="other-instance-disturbed"),
                    "after building ImmutIntervalMap(%r) an older map {(0,1):'d0',(3,4):'d1'} answers [1], [2], [3.5], list -> %r" % (
                        mapping, dec), dict(rep, snippet=snippet(ivs, "# an older map built before must still answer as before")))
        DECOY = None
    if len(ivs) >= 2 and cnt["valid_multi"] in (1, 7, 40):
        r.sample({"grid": kind, "mapping": [[list(iv), value_of(iv)] for iv in ivs],
                  "lookups": [[k, observe(m.__getitem__, k)] for k in probes]})
    got = observe(len, m)
    cnt["ops"] += 1
    if got != ("ok", len(ivs)):
        r.violation(dict(base, op="len", kind="value-mismatch"),
                    "len(ImmutIntervalMap(%r)) -> %r, expected %d" % (mapping, got, len(ivs)),
                    dict(rep, snippet=snippet(ivs, "print(len(m))   # expected %d" % len(ivs))))
    exp_items = sorted((iv, value_of(iv)) for iv in ivs)
    got = observe(list, m)
    cnt["ops"] += 1
    if got != ("ok", exp_items):
        r.violation(dict(base, op="iter", kind="value-mismatch",
                         when=("same-items-other-order" if got[0] == "ok" and sorted(got[1]) == exp_items else "other")),
                    "list(ImmutIntervalMap(%r)) -> %r, expected %r" % (mapping, got, exp_items),
                    dict(rep, snippet=snippet(ivs, "print(list(m))   # expected %r" % (exp_items,))))
    # the map is immutable: every iteration lists the same items (a second one, one started while another is
    # under way, one after the look-ups below)
    def again(label):
        it = iter(m)
        part = observe(lambda: list(itertools.islice(it, 1)))
        got2 = observe(list, m)
        rest = observe(list, it)            # the first iterator continues where IT stopped
        cnt["ops"] += 3
        if got2 != ("ok", exp_items) or part != ("ok", exp_items[:1]) or rest != ("ok", exp_items[1:]):
            part = (part, "continued after the full iteration", rest)
            r.violation(dict(base, op="iter", kind="value-mismatch", when="repeated-iteration"),
                        "%s of ImmutIntervalMap(%r): first item %r, then list(m) -> %r, expected %r" % (
                            label, mapping, part, got2, exp_items),
                        dict(rep, snippet=snippet(ivs, "list(m); print(list(m))   # expected %r both times" % (exp_items,))))
    again("second iteration")
    for key in probes:
        exp = ref_lookup(ivs, key)
        want = ("ok", exp[0]) if exp else ("exc", "KeyError")
        got = observe(m.__getitem__, key)
        cnt["ops"] += 2
        cnt["lookups"] += 1
        if got != want:
            if got[0] == "ok":
                k = "wrong-value" if exp else "phantom-hit"
            elif got == ("exc", "KeyError"):
                k = "missed"
            else:
                k = "wrong-exception"
            r.violation(dict(base, op="lookup", kind=k, when=key_class(ivs, key)),
                        "ImmutIntervalMap(%r)[%r] -> %r, linear scan says %r" % (mapping, key, got, want),
                        dict(rep, key=key, snippet=snippet(ivs, "print(m[%r])   # expected %s" % (
                            key, repr(exp[0]) if exp else "KeyError"))))
        got = observe(m.__contains__, key)
        if got != ("ok", bool(exp)):
            r.violation(dict(base, op="in", kind="value-mismatch", when=key_class(ivs, key)),
                        "%r in ImmutIntervalMap(%r) -> %r, linear scan says %r" % (key, mapping, got, bool(exp)),
                        dict(rep, key=key, snippet=snippet(ivs, "print(%r in m)   # expected %r" % (key, bool(exp)))))


def sequences(all_ivs, prefix, maxn):
    """every sequence of distinct intervals of length <= maxn that starts with prefix (prefix itself first)"""
    yield prefix
    if len(prefix) >= maxn:
        return
    for iv in all_ivs:
        if iv not in prefix:
            yield from sequences(all_ivs, prefix + (iv,), maxn)


def work(task):
    kind, g, maxn, prefix = task
    pts = grid_points(kind, g)
    all_ivs = [(s, e) for s in pts for e in pts]
    probes = probe_keys(kind, g)
    r = Report("C16", collect_only=True)
    cnt = dict.fromkeys(["maps", "ops", "valid", "valid_multi", "lookups", "hit", "miss",
                         "invalid_inverted-interval", "invalid_share-an-end-point-only", "invalid_overlap",
                         "kc_key==start==end", "kc_key==start", "kc_key==end", "kc_key-strictly-inside",
                         "kc_empty-map", "kc_key-below-all", "kc_key-above-all", "kc_key-in-gap"], 0)
    if prefix is None:        # the empty map only
        judge(r, kind, (), probes, cnt)
    else:
        for ivs in sequences(all_ivs, prefix, maxn):
            judge(r, kind, ivs, probes, cnt)
    return cnt, r.dump()


def run(report, tier):
    g, maxn = (4, 3) if tier == "quick" else (6, 4)
    report.rule("one state = one input (ordered sequence of distinct intervals = one dict); one transition = one call "
                "of the real class (constructor, len, iteration, [] and `in` per probe key); one evaluation = one input "
                "judged completely (construction outcome vs. the disjointness rule; if constructed: len, iteration and "
                "every probe key on the half-step grid vs. a linear scan); non-trivial = constructed map with >= 2 "
                "intervals (lookup has to pick among several ends)")
    for kind in ("int", "halved", "big", "ulp"):
        pts = grid_points(kind, g)
        all_ivs = [(s, e) for s in pts for e in pts]
        if kind in ("big", "ulp"):
            maxn = 2 if tier == "quick" else 3
        tasks = [(kind, g, maxn, None)] + [(kind, g, maxn, (iv,)) for iv in all_ivs]
        total = None
        for cnt, dump in pmap(work, tasks):
            report.merge(dump)
            if total is None:
                total = dict(cnt)
            else:
                for k, v in cnt.items():
                    total[k] += v
        n = len(all_ivs)
        expected = sum(_falling(n, k) for k in range(maxn + 1))
        if total["maps"] != expected:
            report.harness_error("C16 %s grid: enumerated %d inputs, expected %d" % (kind, total["maps"], expected))
        for k in ("valid_multi", "hit", "miss", "invalid_inverted-interval", "invalid_share-an-end-point-only",
                  "invalid_overlap", "kc_key==start==end", "kc_key==start", "kc_key==end", "kc_key-strictly-inside",
                  "kc_key-below-all", "kc_key-above-all", "kc_key-in-gap", "kc_empty-map"):
            if total[k] == 0:
                report.harness_error("C16 %s grid: class %s never exercised (vacuous driver)" % (kind, k))
        report.part("%s/%s-grid" % (CLS, kind), states=total["maps"], transitions=total["ops"],
                    traces_validated_against_impl=total["maps"], evaluations=total["maps"], exhaustive=True,
                    grid=pts, max_intervals=maxn, probe_keys=probe_keys(kind, g),
                    constructible=total["valid"], constructible_with_2plus_intervals=total["valid_multi"],
                    rejected_expected={k[8:]: total[k] for k in total if k.startswith("invalid_")},
                    lookups=total["lookups"], probes_expected_hit=total["hit"], probes_expected_miss=total["miss"],
                    probe_key_classes={k[3:]: total[k] for k in total if k.startswith("kc_")})
        report.nontrivial_n(total["valid_multi"])


def _falling(n, k):
    out = 1
    for i in range(k):
        out *= n - i
    return out


def replay(rec):
    print(rec["what"])
    rp = rec["replay"]
    print(rp.get("snippet"))
    ivs = tuple(tuple(iv) for iv in rp["intervals"])
    kind = rp["grid"]
    g = 1
    for iv in ivs:
        g = max(g, int(max(iv) * (1 if kind == "int" else 2)))
    r = Report("C16", collect_only=True)
    cnt = __import__("collections").defaultdict(int)
    probes = probe_keys(kind, g)
    if "key" in rp and rp["key"] not in probes:
        probes.append(rp["key"])
    judge(r, kind, ivs, probes, cnt)
    for sig, what, _, _ in r.pending.values():
        print("REPRODUCED: " + what)
    return 1 if r.pending else 0
