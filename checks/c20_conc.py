"""C20, concurrent part (engine A): a child process of a multi_proc TmpPool creates files while the parent
flushes / creates / leaves the context.  The real files.py is loaded over the virtual multiprocessing layer
(the manager list becomes a virtual shared list whose every proxied call is a scheduling point); files are
real files in a scratch directory.  All schedules, unbounded."""
import os
import shutil

from mc import vmp, vsched
from checks.poolmc import Kit, run_pool_check, blocked_sig

SRC = "windpyutils/files.py"
_n = [0]


class Cfg:
    def __init__(self, name, parent_ops, child_ops, children=1):
        self.name = name
        self.parent_ops = list(parent_ops)      # executed by the parent while the children run
        self.child_ops = list(child_ops)        # executed by every child (only "create", as the statement says)
        self.children = children
        self.family = "TmpPool/concurrent"
        self.required = []
        self.workers = children + 1

    def describe(self):
        return {"name": self.name, "parent_ops": self.parent_ops, "child_ops": self.child_ops, "children": self.children}


def make_driver(cfg):
    def driver(s):
        _n[0] += 1
        d = "/dev/shm/verif-c20c-%d/%d" % (os.getpid(), _n[0])
        os.makedirs(d)
        out = {"dir": d, "created": [], "mid": None, "after": None}
        s.user["out"] = out
        try:
            F = vmp.load(SRC, "windpyutils.files")

            class Child(vmp.Process):
                def __init__(self, pool):
                    super().__init__()
                    self.pool = pool

                def run(self):
                    for op in cfg.child_ops:
                        out["created"].append(self.pool.create())

            with F.TmpPool(d, multi_proc=True) as pool:
                kids = [Child(pool) for _ in range(cfg.children)]
                for k in kids:
                    k.start()
                own = []
                for op in cfg.parent_ops:
                    if op == "create":
                        own.append(pool.create())
                        out["created"].append(own[-1])
                    elif op == "flush":
                        pool.flush()
                        own = []
                    elif op == "remove":        # the parent removes the file it created last
                        pool.remove(own.pop())
                for k in kids:
                    k.join()
                out["mid"] = (sorted(os.listdir(d)), sorted(os.path.basename(p) for p in pool))
            out["after"] = sorted(os.listdir(d))
        finally:
            shutil.rmtree(d, ignore_errors=True)
        return out
    return driver


def judge(cfg, r):
    out = r.user.get("out")
    v = []
    fam = cfg.family
    if r.outcome in ("deadlock", "livelock"):
        v.append(("C20", {"spec": fam, "kind": r.outcome}, "%s: %s: %s" % (cfg.name, r.outcome, blocked_sig(r.blocked)), {}))
    for role, task, ename, msg, tb in r.exceptions:
        v.append(("C20", {"spec": fam, "kind": "raises", "exc": ename}, "%s: %s died with %s: %s" % (cfg.name, role, ename, msg),
                  {"traceback": tb}))
    if out is None or r.outcome != "done" or r.exceptions:
        return v
    if out["mid"] is not None and out["mid"][0] != out["mid"][1]:
        v.append(("C20", {"spec": fam, "kind": "list-mismatch"},
                  "%s: after all creators finished the directory holds %r but the pool lists %r" % (cfg.name, out["mid"][0], out["mid"][1]), {}))
    if out["after"]:
        v.append(("C20", {"spec": fam, "kind": "left-behind"},
                  "%s: %d file(s) exist after the context was left: %r" % (cfg.name, len(out["after"]), out["after"]), {}))
    if len(set(out["created"])) != len(out["created"]):
        v.append(("C20", {"spec": fam, "kind": "duplicate-path"}, "%s: create() returned a path twice" % cfg.name, {}))
    return v


def observation(cfg, r):
    out = r.user.get("out") or {}
    mid = out.get("mid")
    return (r.outcome, None if mid is None else len(mid[0]), bool(out.get("after")))


KIT = Kit(make_driver, judge, observation, SRC)


def run_part(report, tier):
    plan = [(Cfg("child:create | parent:flush", ["flush"], ["create"]), None, 0, None),
            (Cfg("child:create,create | parent:create,flush", ["create", "flush"], ["create", "create"]), None, 0, None),
            (Cfg("child:create | parent:flush,create,flush", ["flush", "create", "flush"], ["create"]), None, 0, None),
            (Cfg("child:create | parent:create,remove", ["create", "remove"], ["create"]), None, 0, None),
            (Cfg("child:create,create | parent:create,create,remove,remove", ["create", "create", "remove", "remove"], ["create", "create"]),
             2 if tier == "quick" else None, 0, None),
            (Cfg("2 children:create | parent:flush", ["flush"], ["create"], children=2), 3 if tier == "quick" else None, 0, None)]
    rule = report.cov.get("rule", "")
    try:
        run_pool_check(report, "C20", plan, kit=KIT, what="files.py (TmpPool, multi_proc)")
    finally:
        shutil.rmtree("/dev/shm/verif-c20c-%d" % os.getpid(), ignore_errors=True)
        import glob
        for d in glob.glob("/dev/shm/verif-c20c-*"):
            if not os.listdir(d):
                shutil.rmtree(d, ignore_errors=True)
    report.cov["rule"] = rule + (" | concurrent part: one evaluation = one complete schedule of parent and child processes of a "
                                "multi_proc TmpPool over the virtual manager list (engine A)")


# ---------------------------------------------------------------------------------------------------
# a pool constructed in one process and entered (used as a context) in a really forked child
# ---------------------------------------------------------------------------------------------------

def fork_entered_part(report, tier):
    """Every combination of (plain / multi_proc) x (1..3 creates, an optional remove) x (normal / raising body),
    the `with pool:` block running in a forked child of the process that constructed the pool.  Real fork():
    what matters here is the identity of the OS process, which the virtual layer does not model."""
    import itertools
    import signal
    import tempfile
    import time
    from windpyutils.files import TmpPool
    base = tempfile.mkdtemp(prefix="verif-c20f-", dir="/dev/shm")
    n = bad = 0
    try:
        for multi, k, rm, raising in itertools.product((False, True), (1, 2, 3), (False, True), (False, True)):
            d = tempfile.mkdtemp(dir=base)
            pool = TmpPool(d, multi_proc=multi)
            pid = os.fork()
            if pid == 0:
                code = 0
                try:
                    os.setsid()
                    try:
                        with pool:
                            paths = [pool.create() for _ in range(k)]
                            if rm:
                                pool.remove(paths[0])
                            if not all(os.path.exists(p) for p in paths[(1 if rm else 0):]):
                                code = 4
                            if raising:
                                raise KeyError("body")
                    except KeyError:
                        pass
                except BaseException:   # noqa
                    code = 5
                finally:
                    os._exit(code)
            deadline = time.time() + 30
            status = None
            while time.time() < deadline:
                w, st = os.waitpid(pid, os.WNOHANG)
                if w:
                    status = st
                    break
                time.sleep(0.01)
            try:
                os.killpg(pid, signal.SIGKILL)
            except OSError:
                pass
            if status is None:
                try:
                    os.waitpid(pid, 0)
                except OSError:
                    pass
            n += 1
            left = sorted(os.listdir(d))
            case = {"multi_proc": multi, "creates": k, "remove_first": rm, "body_raises": raising}
            if status is None or os.WEXITSTATUS(status) != 0:
                bad += 1
                report.violation({"spec": "TmpPool/entered-in-child", "kind": "child-failed", "multi_proc": multi},
                                 "pool constructed in the parent, context entered in a forked child %r: child status %r" % (case, status),
                                 {"engine": "fork", "case": case})
            elif left:
                bad += 1
                report.violation({"spec": "TmpPool/entered-in-child", "kind": "left-behind", "multi_proc": multi},
                                 "pool constructed in the parent, `with pool:` run in a forked child %r: %d file(s) exist after the "
                                 "context was left" % (case, len(left)), {"engine": "fork", "case": case})
            mgr = getattr(pool, "_manager", None)
            if mgr is not None:
                try:
                    mgr.shutdown()
                except Exception:   # noqa
                    pass
    finally:
        shutil.rmtree(base, ignore_errors=True)
    report.part("TmpPool/entered-in-forked-child", states=n, transitions=n, evaluations=n, traces_validated_against_impl=n,
                exhaustive=True, failures=bad,
                what="pool constructed in the parent, used as a context in a really forked child: 2 kinds x 1..3 creates x "
                     "optional remove x normal/raising body; directory must be empty afterwards")
