"""Shared driver for C06 (LRUCache) and C07 (LFUCache): op menu over the whole MutableMapping surface,
application of an op to the real cache (every call under a deterministic StepBudget), lock-step with a
*set* of reference states (appendix F of DESIGN.md), public-API content check on a deep copy, internal
dict/list agreement, and a level-synchronous parallel variant of seqmc.explore for depth-bounded runs.

Reference state = one tuple describing what the statement fixes (LRU: entries most-recent first;
LFU: (key, value, count) sorted by key).  A model is a frozenset of reference states: where the statement
leaves latitude (membership tests, whether the look-ups a view performs count as uses, which of several
least-frequent keys goes, which entry popitem takes) the successor is a set, and what is observed
afterwards through pure observers (list(c)) filters it.  Empty set = violation.
"""
import copy
import functools
import hashlib
import itertools
import os
import traceback

from mc.canon import canon
from mc.seqmc import Spec, Mismatch, observe, StepBudget, BudgetExceeded

partial = functools.partial
from mc.report import Report
from mc.par import pmap, NPROC
from checks.c08 import walk_check

VALUES = ("a", "b")
BUDGET = 4000            # traced lines of /repo code per call; legitimate cost on <= 5 entries is < 300
DFLT = "dflt"

# the look-ups of these ops go through Mapping views (iteration + __getitem__): one op class for signatures
OPCLASS = {"update3": "store", "look2": "lookup", "iterlook": "view", "iternest": "view", "set": "store", "update": "store", "update2": "store", "get": "lookup", "getd": "lookup",
           "del": "remove", "pop": "remove", "popd": "remove",
           "values": "values|items|==", "items": "values|items|==", "eq_dict": "values|items|==",
           "eq_cache": "values|items|=="}
PURE = ("len", "iter", "keys", "iternest")
VIEWS = ("values", "items", "eq_dict", "eq_cache")


def eq_operand(content, variant, keys):
    """dict the cache is compared with, derived from the reference content; -> (dict, expected result)"""
    d = dict(content)
    if variant == "same":
        return d, True
    if variant == "value":
        k = min(d)
        d[k] = VALUES[1] if d[k] == VALUES[0] else VALUES[0]
        return d, False
    if variant == "extra":
        k = min(x for x in keys if x not in d)
        d[k] = VALUES[0]
        return d, False
    if variant == "missing":
        del d[max(d)]
        return d, False
    raise AssertionError(variant)


class CacheSpec(Spec):
    """Base: subclasses give cls, cls_name and the reference semantics (successors / consistent / ...)."""
    cls = None
    cls_name = "?"
    import_line = ""
    iterlook_views = ("iter", "keys")

    def __init__(self, capacity, inits=("empty",)):
        self.capacity = capacity
        self.keys = tuple(range(capacity + 1))
        self.inits = tuple(inits)
        self.name = "%s/c=%d" % (self.cls_name, capacity)
        self.budget = StepBudget(BUDGET)
        self.last = None
        self.stats = {}
        self.lines = None          # when a list: code lines of the ops applied (for snippets)
        self.replaying = False
        self.clone_for_lookups = True     # explore_levels takes the state key first and lets check() use the object itself

    # ---- reference semantics, per class ------------------------------------------------------------
    def empty_state(self):
        return ()

    def content(self, s):
        """reference state -> {key: value}"""
        raise NotImplementedError

    def successors(self, s, op, ret):
        """-> iterable of reference states allowed after op (ret = observed return, already validated)"""
        raise NotImplementedError

    def consistent(self, s, order):
        """is the observed iteration order (a list of the state's keys) allowed in reference state s?"""
        raise NotImplementedError

    def prefix(self, name):
        return []

    def interesting(self, model):
        return True

    # ---- plumbing -------------------------------------------------------------------------------------
    def initials(self):
        return [[self.capacity, n] for n in self.inits]

    def build(self, init):
        if getattr(self, "_decoy", None) is None:
            # a second cache that is alive all the time and holds two entries: caches are independent objects
            d = self.cls(2)
            d["decoy-1"] = "x"
            d["decoy-2"] = "y"
            self._decoy = (d, (list(d), len(d)))
        impl = self.cls(init[0])
        self.last = None
        model = frozenset([self.empty_state()])
        for op in self.prefix(init[1]):
            model = self.step(impl, model, op)
        return impl, model

    def ops(self, impl, model):
        content = self.content(next(iter(model)))
        K, V = self.keys, VALUES
        ops = [("set", k, v) for k in K for v in V]
        ops += [("get", k) for k in K]
        ops += [("del", k) for k in K]
        ops += [("in", k) for k in K]
        ops += [("len",), ("iter",), ("keys",), ("values",), ("items",)]
        ops += [("getd", k) for k in K]
        ops += [("pop", k) for k in K]
        ops += [("popd", k) for k in K]
        ops += [("popitem",), ("clear",)]
        ops += [("update", k, v) for k in K for v in V]
        ops += [("update2", k1, k2) for k1 in K for k2 in K if k1 != k2]
        # a list of pairs that is longer than a small cache and stores one key twice (the later value wins)
        ops += [("update3", k1, k2) for k1 in K for k2 in K if k1 != k2]
        ops += [("setdefault", k, v) for k in K for v in V]
        # two look-ups / membership tests back to back, with no observation in between: state that one of them
        # leaves behind (a memo, a "same head as last time" test) must not survive into the next observation
        ops += [("look2", a, k1, b, k2) for a, b in (("get", "get"), ("in", "get")) for k1 in K for k2 in K if k1 != k2]
        # an iteration / view that is still open while look-ups (uses!) of one key go on: must end, look-ups unaffected
        if len(content) >= 2:
            ops += [("iterlook", view, k) for view in self.iterlook_views for k in [x for x in K if x in content] + ["*"]]
            # ... and while a second, complete iteration runs between any two of its steps (nothing is used: exact)
            ops += [("iternest", view) for view in ("iter", "keys")]
        variants = ["same", "extra"] + (["value", "missing"] if content else [])
        ops += [("eq_dict", x) for x in variants]
        ops += [("eq_cache", x) for x in variants]
        return ops

    def run2(self, fn, order_fn):
        """the operation, then the pure observation list(c): both under ONE step budget (switching the tracer on
        and off costs more than the operations).  Replayed prefixes were explored under the budget before and the
        library is deterministic, so they run untraced."""
        res = [None, None]

        def both():
            res[0] = observe(fn)
            res[1] = observe(order_fn)
        if self.replaying:
            both()
        else:
            try:
                self.budget.run(both)
            except BudgetExceeded:
                if res[0] is None:
                    res[0] = ("diverges",)
                res[1] = ("diverges",)
        return res[0], res[1]

    def run_all(self, fns):
        res = []

        def all_():
            for f in fns:
                res.append(observe(f))
        try:
            self.budget.run(all_)
        except BudgetExceeded:
            res.append(("diverges",))
        return res + [("not-run",)] * (len(fns) - len(res))

    def code(self, line):
        if self.lines is not None:
            self.lines.append(line)

    def mm(self, kind, detail, **extra):
        return Mismatch(kind, detail, extra)

    def step(self, impl, model, op):
        op = tuple(op)
        try:
            return self._step(impl, model, op)
        except Mismatch as m:
            m.sig_extra = dict({"spec": self.cls_name, "op": OPCLASS.get(op[0], op[0])}, **m.sig_extra)
            raise
        except Exception as e:   # noqa -- harness or library outside observe(): never silently lost
            tb = traceback.extract_tb(e.__traceback__)
            where = "%s:%d" % (os.path.basename(tb[-1].filename), tb[-1].lineno) if tb else "?"
            raise Mismatch("unexpected-exception", "%s: %s at %s" % (type(e).__name__, e, where),
                           {"spec": self.cls_name, "op": OPCLASS.get(op[0], op[0]), "exc": type(e).__name__})

    def check(self, impl, model):
        try:
            self._check(impl, model)
        except Mismatch as m:
            m.sig_extra = dict({"spec": self.cls_name}, **m.sig_extra)
            raise

    # ---- one operation --------------------------------------------------------------------------------
    def _apply(self, c, op, content):
        """-> (thunk running op on the real cache, expected observation or None when checked separately)"""
        kind = op[0]
        r = repr
        if kind == "set":
            self.code("c[%r] = %r" % (op[1], op[2]))
            return partial(c.__setitem__, op[1], op[2]), ("ok", None)
        if kind == "get":
            self.code("c[%r]" % (op[1],))
            return partial(c.__getitem__, op[1]), (("ok", content[op[1]]) if op[1] in content else ("exc", "KeyError"))
        if kind == "del":
            self.code("del c[%r]" % (op[1],))
            return partial(c.__delitem__, op[1]), (("ok", None) if op[1] in content else ("exc", "KeyError"))
        if kind == "in":
            self.code("%r in c" % (op[1],))
            return partial(lambda: op[1] in c), ("ok", op[1] in content)
        if kind == "look2":
            f1, e1 = self._apply(c, (op[1], op[2]), content)
            f2, e2 = self._apply(c, (op[3], op[4]), content)
            return (lambda: (observe(f1), observe(f2))), ("ok", (e1, e2))
        if kind == "iterlook":
            view, k = op[1], op[2]
            self.code("it = iter(%s)" % ("c" if view == "iter" else "c.%s()" % view))
            if k == "*":
                self.code("while True: next(it); [c[x] for x in list(c)]        # until StopIteration")
            else:
                self.code("while True: next(it); c[%r]; list(c)        # until StopIteration" % (k,))
            cap = 4 * self.capacity + 8

            def run():
                it = iter(c if view == "iter" else getattr(c, view)())
                yields, looks = [], []
                while len(yields) < cap:
                    try:
                        yields.append(next(it))
                    except StopIteration:
                        return ("ended", yields, looks)
                    except RuntimeError:
                        return ("refused", yields, looks)        # "changed during iteration": a legitimate answer
                    for x in (list(c) if k == "*" else [k]):
                        looks.append((x, observe(partial(c.__getitem__, x))))
                    list(c)
                return ("runaway", yields, looks)
            return run, None
        if kind == "iternest":
            view = op[1]
            self.code("it = iter(%s)" % ("c" if view == "iter" else "c.keys()"))
            self.code("while True: next(it); list(c)        # until StopIteration")
            cap = 4 * self.capacity + 8

            def run():
                it = iter(c if view == "iter" else c.keys())
                out = []
                while len(out) < cap:
                    try:
                        out.append(next(it))
                    except StopIteration:
                        return out
                    list(c)
                return out + ["..."]
            return run, None
        if kind == "len":
            self.code("len(c)")
            return partial(len, c), ("ok", len(content))
        if kind == "iter":
            self.code("list(c)")
            return partial(lambda: list(c)), None
        if kind == "keys":
            self.code("list(c.keys())")
            return partial(lambda: list(c.keys())), None
        if kind == "values":
            self.code("list(c.values())")
            return partial(lambda: list(c.values())), None
        if kind == "items":
            self.code("list(c.items())")
            return partial(lambda: list(c.items())), None
        if kind == "getd":
            self.code("c.get(%r)" % (op[1],))
            return partial(c.get, op[1]), ("ok", content.get(op[1]))
        if kind == "pop":
            self.code("c.pop(%r)" % (op[1],))
            return partial(c.pop, op[1]), (("ok", content[op[1]]) if op[1] in content else ("exc", "KeyError"))
        if kind == "popd":
            self.code("c.pop(%r, %r)" % (op[1], DFLT))
            return partial(c.pop, op[1], DFLT), ("ok", content.get(op[1], DFLT))
        if kind == "popitem":
            self.code("c.popitem()")
            return partial(c.popitem), None
        if kind == "clear":
            self.code("c.clear()")
            return partial(c.clear), ("ok", None)
        if kind == "update":
            self.code("c.update({%r: %r})" % (op[1], op[2]))
            return partial(c.update, {op[1]: op[2]}), ("ok", None)
        if kind == "update2":
            self.code("c.update({%r: %r, %r: %r})" % (op[1], VALUES[0], op[2], VALUES[1]))
            return partial(c.update, {op[1]: VALUES[0], op[2]: VALUES[1]}), ("ok", None)
        if kind == "update3":
            pairs = [(op[1], VALUES[0]), (op[2], VALUES[1]), (op[2], VALUES[0])]
            self.code("c.update(%r)" % (pairs,))
            return partial(c.update, list(pairs)), ("ok", None)
        if kind == "setdefault":
            self.code("c.setdefault(%r, %r)" % (op[1], op[2]))
            return partial(c.setdefault, op[1], op[2]), ("ok", content.get(op[1], op[2]))
        if kind == "eq_dict":
            d, exp = eq_operand(content, op[1], self.keys)
            self.code("c == %r" % (d,))
            return partial(lambda: c == d), ("ok", exp)
        if kind == "eq_cache":
            d, exp = eq_operand(content, op[1], self.keys)
            other = self.cls(self.capacity + 1)
            self.code("o = %s(%d)" % (self.cls_name, self.capacity + 1))
            for k in sorted(d):
                other[k] = d[k]
                self.code("o[%r] = %r" % (k, d[k]))
            self.code("c == o")
            return partial(lambda: c == other), ("ok", exp)
        raise AssertionError(op)

    def _step(self, impl, model, op):
        kind = op[0]
        s0 = next(iter(model))
        content = self.content(s0)
        n0 = len(content)
        fn, exp = self._apply(impl, op, content)
        got, order = self.run2(fn, lambda: list(itertools.islice(iter(impl), self.capacity + 2)))
        if got == ("diverges",):
            raise self.mm("diverges", "%s does not terminate (more than %d lines of library code executed) with "
                          "content %r" % (self.line(op), BUDGET, content))
        if exp is not None:
            if got != exp or (got[0] == "ok" and type(got[1]) is not type(exp[1])):
                k = "returns"
                if got[0] == "ok" and exp[0] == "ok" and kind in ("get", "getd", "pop", "popd", "setdefault"):
                    k = "stale-value"
                raise self.mm(k, "%s -> %r, reference %r (content %r)" % (self.line(op), got, exp, content))
        elif kind in ("iter", "keys", "iternest"):
            pass      # compared with the pure observation below
        elif kind == "iterlook":
            if got[0] != "ok":
                raise self.mm("raises", "%s -> %r (content %r)" % (self.line(op), got, content))
            status, yields, looks = got[1]
            if status == "runaway":
                raise self.mm("diverges", "%s: the iteration is still yielding after %d items %r (cache of %d entries %r)" % (
                    self.line(op), len(yields), yields[:8], len(content), content))
            bad = [(x, r) for x, r in looks if r != (("ok", content[x]) if x in content else ("exc", "KeyError"))]
            if bad:
                raise self.mm("stale-value", "%s: look-ups returned %r, content %r" % (self.line(op), bad[:3], content))
            if status == "ended" and sorted(yields) != sorted(content):
                # only look-ups went on, no key came or went: whatever the order, every key is listed, once
                raise self.mm("iteration-interleaved", "%s listed %r; the cache held the keys %r all the time" % (
                    self.line(op), yields, sorted(content)))
        elif kind == "values":
            self.view(op, got, sorted(content.values()), content)
        elif kind == "items":
            self.view(op, got, sorted(content.items()), content)
        elif kind == "popitem":
            if not content:
                if got != ("exc", "KeyError"):
                    raise self.mm("returns", "popitem() on an empty cache -> %r, reference KeyError" % (got,))
            elif not (got[0] == "ok" and isinstance(got[1], tuple) and len(got[1]) == 2
                      and got[1][0] in content and content[got[1][0]] == got[1][1]):
                raise self.mm("returns", "popitem() -> %r is not an entry of %r" % (got, content))
        # ---- reference successors, filtered by what the pure observer shows
        cands = set()
        for s in model:
            if kind == "look2":
                for s1 in self.successors(s, (op[1], op[2]), got[1][0]):
                    cands.update(self.successors(s1, (op[3], op[4]), got[1][1]))
            elif kind == "iterlook":
                cur_ = {s}
                for x, r in got[1][2]:
                    cur_ = {s2 for s1 in cur_ for s2 in self.successors(s1, ("get", x), r)}
                cands.update(cur_)
            else:
                cands.update(self.successors(s, op, got))
        if order[0] != "ok":
            raise self.mm("iteration", "list(c) after %s -> %r" % (self.line(op), order))
        order = order[1]
        if len(order) > self.capacity:
            raise self.mm("exceeds-max-size", "list(c) has more than max_size=%d keys after %s: %r..." % (
                self.capacity, self.line(op), order))
        keysets = {frozenset(self.content(s)) for s in cands}
        if len(set(order)) != len(order) or frozenset(order) not in keysets:
            evicting = kind in ("set", "update", "setdefault") and op[1] not in content and n0 >= self.capacity
            gone = sorted(set(content) - set(order))
            if evicting and len(gone) == 1 and set(order) - set(content) == {op[1]} and len(set(order)) == len(order):
                raise self.mm("wrong-victim", "%s into the full cache %s removed key %r; the reference allows only %r" % (
                    self.line(op), self.describe(model), gone[0],
                    sorted(set(content) - set(ks) for ks in keysets)))
            raise self.mm("key-set", "after %s list(c) == %r; reference key set(s) %r (before: %s)" % (
                self.line(op), order, sorted(sorted(ks) for ks in keysets), self.describe(model)))
        cands = [s for s in cands if set(self.content(s)) == set(order)]
        model2 = frozenset(s for s in cands if self.consistent(s, order))
        if not model2:
            raise self.mm("order", "after %s list(c) == %r, which no reference state allows: %s" % (
                self.line(op), order, self.describe(frozenset(cands))))
        if kind in ("iter", "keys", "iternest") and got != ("ok", order):
            raise self.mm("returns", "%s -> %r but list(c) == %r" % (self.line(op), got, order))
        c2 = self.content(next(iter(model2)))
        self.last = {"op": op, "order": order,
                     "evict": kind in ("set", "update", "setdefault") and op[1] not in content and n0 >= self.capacity,
                     "overwrite": kind in ("set", "update") and op[1] in content and content[op[1]] != op[2],
                     "in_present": kind == "in" and op[1] in content,
                     "view2": kind in VIEWS and n0 >= 2,
                     "ambiguous": len(model2) > 1,
                     "n": len(c2)}
        return model2

    def view(self, op, got, exp_sorted, content):
        if got[0] != "ok":
            raise self.mm("raises", "%s -> %r (content %r)" % (self.line(op), got, content))
        if len(got[1]) != len(exp_sorted):
            raise self.mm("view-length", "%s yields %d elements %r for a cache of %d entries %r" % (
                self.line(op), len(got[1]), got[1], len(content), content),
                          count="fewer" if len(got[1]) < len(exp_sorted) else "more")
        if sorted(got[1]) != exp_sorted:
            raise self.mm("view-content", "%s -> %r, content %r" % (self.line(op), got[1], content))

    def line(self, op):
        kind = op[0]
        t = {"set": "c[%r] = %r", "get": "c[%r]", "del": "del c[%r]", "in": "%r in c", "len": "len(c)",
             "iter": "list(c)", "keys": "list(c.keys())", "values": "list(c.values())", "items": "list(c.items())",
             "getd": "c.get(%r)", "pop": "c.pop(%r)", "popd": "c.pop(%r, 'dflt')", "popitem": "c.popitem()",
             "clear": "c.clear()", "update": "c.update({%r: %r})", "update2": "c.update({%r: 'a', %r: 'b'})",
             "update3": "c.update([(%r, 'a'), (k2 := %r, 'b'), (k2, 'a')])",
             "setdefault": "c.setdefault(%r, %r)", "eq_dict": "c == <dict: %s>", "eq_cache": "c == <cache: %s>",
             "look2": "%s %r; %s %r (no observation in between)",
             "iterlook": "it = iter(c) [%s]; next(it), look-up of %r (*: every key) and list(c) alternately until it ends",
             "iternest": "it = iter(c) [%s]; next(it), list(c) alternately until it ends"}[kind]
        return t % tuple(op[1:]) if len(op) > 1 else t

    def describe(self, model):
        return " | ".join(sorted(repr(s) for s in model)[:4])

    # ---- after the new transition only (not during replays) --------------------------------------------
    def _check(self, impl, model):
        d = getattr(self, "_decoy", None)
        if d is not None:
            now = (observe(list, d[0]), observe(len, d[0]))
            if now != (("ok", d[1][0]), ("ok", d[1][1])):
                raise self.mm("other-instance-disturbed", "a second %s holding two entries now shows (list, len) = %r, "
                              "it showed %r" % (self.cls_name, now, d[1]))
        s0 = next(iter(model))
        content = self.content(s0)
        order = self.last["order"] if self.last is not None else []
        if len(content) > self.capacity:
            raise self.mm("exceeds-max-size", "reference holds %d entries" % len(content))
        # internal agreement (anchors: LRUCache/LFUCache .cache dict and .list) -- before anything touches the object
        cache, lst = getattr(impl, "cache", None), getattr(impl, "list", None)
        if isinstance(cache, dict) and lst is not None and hasattr(lst, "head"):
            if set(cache) != set(content):
                raise self.mm("internal", "dict holds keys %r, reference %r" % (sorted(cache), sorted(content)))
            try:
                walk_check(lst, [cache[k] for k in order])
            except Mismatch as m:
                raise self.mm("internal", "recency/frequency list vs dict: %s: %s" % (m.kind, m.detail), walk=m.kind)
        else:
            self.stats["no_internals"] = self.stats.get("no_internals", 0) + 1
        # len, then the content through look-ups of every key of the alphabet -- on a deep copy unless the caller
        # has finished with the object (a look-up is a use and disturbs the state)
        clone = copy.deepcopy(impl) if self.clone_for_lookups else impl
        res = self.run_all([partial(len, impl)] + [partial(clone.__getitem__, k) for k in self.keys])
        r = res[0]
        if r != ("ok", len(content)):
            raise self.mm("len", "len(c) -> %r, list(c) == %r" % (r, order))
        for k, r in zip(self.keys, res[1:]):
            exp = ("ok", content[k]) if k in content else ("exc", "KeyError")
            if r != exp:
                kind = "stale-value" if (r[0] == "ok" and exp[0] == "ok") else "lookup"
                raise self.mm(kind, "afterwards c[%r] -> %r, reference %r (latest stored)" % (k, r, exp))
        if self.last is not None:
            st = self.stats
            for f in ("evict", "overwrite", "in_present", "view2", "ambiguous"):
                if self.last[f]:
                    st[f] = st.get(f, 0) + 1
            st["transitions"] = st.get("transitions", 0) + 1

    def key(self, impl, model):
        return (canon(impl), tuple(sorted(model)))

    def nontrivial(self, impl, model):
        return self.interesting(model)

    def snippet(self, init, hist):
        self.lines = [self.import_line, "c = %s(%d)" % (self.cls_name, init[0])]
        try:
            impl, model = self.build(init)
            for op in hist:
                model = self.step(impl, model, op)
            self.check(impl, model)
            self.lines.append("# (no disagreement on re-execution)")
        except Mismatch as m:
            self.lines.append("# %s: %s" % (m.kind, m.detail))
        out, self.lines = self.lines, None
        return "\n".join(out)


# ---- level-synchronous parallel exploration (same semantics as seqmc.explore, work split per depth) ------

def _h(key):
    return hashlib.blake2b(repr(key).encode(), digest_size=16).digest()


def explore_levels(make_spec, spec_args, report, max_depth, chunk=32):
    """BFS by levels: the frontier of each depth is cut into chunks expanded in forked workers (each replays its
    histories on fresh objects, applies the whole menu, checks every transition); the parent de-duplicates
    successor states by the hash of their canonical key, in task order, so counts are deterministic.
    max_depth None = until closed."""
    spec = make_spec(*spec_args)
    seen = {}          # hash of the canonical implementation state -> reference sets it was reached with
    frontier = []
    levels = []

    def new_state(h, model):
        """(impl, M) is subsumed by a seen (impl, M') with M' a subset of M: the same implementation state was
        (or is being) expanded at no greater depth under a reference set that allows no more, so every
        disagreement below (impl, M) is also one below (impl, M')."""
        known = seen.setdefault(h, [])
        for m in known:
            if m <= model:
                return False
        known.append(model)
        return True

    states = transitions = nontriv = 0
    stats = {}
    for init in spec.initials():
        try:
            impl, model = spec.build(init)
            spec.check(impl, model)
        except Mismatch as m:
            sig = dict({"spec": spec.cls_name, "kind": m.kind, "op": None}, **m.sig_extra)
            report.violation(sig, "%s: %s building init=%r: %s" % (spec.name, m.kind, init, m.detail),
                             {"engine": "seqmc", "spec": spec.name, "capacity": spec.capacity, "init": init,
                              "history": [], "detail": m.detail, "snippet": spec.snippet(init, [])})
            continue
        if new_state(_h(canon(impl)), model):
            states += 1
            frontier.append((init, ()))
    n_init = states
    depth = 0
    closed = True

    def expand(tasks):
        sp = make_spec(*spec_args)
        sp.clone_for_lookups = False
        rep = Report(report.prop, collect_only=True)
        out = []
        ntr = 0
        sigs = set()
        local = set()
        def diverged(init, hist, m):
            # an accepted history disagrees with the reference when it is executed again: the library's behaviour
            # depends on something other than the history (object identity, a global); that execution is a violation
            sig = dict({"spec": sp.cls_name, "kind": m.kind, "op": "replay-of-accepted-history"}, **m.sig_extra)
            full = [list(o) for o in hist]
            rep.violation(sig, "%s: %s when the accepted history init=%r history=%r is executed again: %s" % (
                sp.name, m.kind, init, full, m.detail),
                {"engine": "seqmc", "spec": sp.name, "capacity": sp.capacity, "init": init, "history": full,
                 "detail": m.detail, "snippet": sp.snippet(init, full)})

        for init, hist in tasks:
            sp.replaying = True
            try:
                impl, model = sp.build(init)
                for op in hist:
                    model = sp.step(impl, model, op)
            except Mismatch as m:
                diverged(init, hist, m)
                continue
            menu = sp.ops(impl, model)
            for op in menu:
                sp.replaying = True
                try:
                    impl, model = sp.build(init)
                    for o in hist:
                        model = sp.step(impl, model, o)
                except Mismatch as m:
                    diverged(init, hist, m)
                    break
                sp.replaying = False
                ntr += 1
                try:
                    model2 = sp.step(impl, model, op)
                    hk = (_h(canon(impl)), model2)      # before check(): its look-ups use (and disturb) this object
                    sp.check(impl, model2)
                except Mismatch as m:
                    sig = dict({"spec": sp.cls_name, "kind": m.kind, "op": OPCLASS.get(op[0], op[0])}, **m.sig_extra)
                    sk = repr(sorted(sig.items()))
                    full = [list(o) for o in hist] + [list(op)]
                    if sk in sigs:
                        rep.violation(sig, "", {})
                    else:
                        sigs.add(sk)
                        rep.violation(sig, "%s: %s after init=%r history=%r: %s" % (sp.name, m.kind, init, full, m.detail),
                                      {"engine": "seqmc", "spec": sp.name, "capacity": sp.capacity, "init": init,
                                       "history": full, "detail": m.detail, "snippet": sp.snippet(init, full)})
                    continue
                if hk not in local:        # first occurrence in task order; the parent de-duplicates globally
                    local.add(hk)
                    out.append((hk[0], model2, init, hist + (op,), sp.nontrivial(impl, model2)))
        return out, ntr, sp.stats, rep.dump()

    while frontier:
        if max_depth is not None and depth >= max_depth:
            closed = False
            break
        per = max(1, min(chunk, len(frontier) // (4 * NPROC)))      # a function of the frontier only: deterministic
        tasks = [frontier[i:i + per] for i in range(0, len(frontier), per)]
        results = pmap(expand, tasks)
        levels.append(len(frontier))
        frontier = []
        succ = []
        for out, ntr, st, dump in results:
            transitions += ntr
            for k, v in st.items():
                stats[k] = stats.get(k, 0) + v
            report.merge(dump)
            succ.extend(out)
        succ.sort(key=lambda t: len(t[1]))      # stable: sharper reference sets first, then task order
        for k, model, init, hist, nt in succ:
            if new_state(k, model):
                states += 1
                nontriv += bool(nt)
                frontier.append((init, hist))
                if states <= n_init + 2 or states % 997 == 0:
                    report.sample({"spec": spec.name, "init": init, "history": [list(o) for o in hist]})
        depth += 1
    report.part(spec.name, states=states, transitions=transitions, traces_validated_against_impl=transitions,
                evaluations=transitions, initial_states=n_init, depth_bound=max_depth, max_depth_seen=depth,
                reachable_graph_closed=closed, exhaustive=True, coverage=stats, states_expanded_per_depth=levels)
    report.nontrivial_n(nontriv)
    return {"states": states, "transitions": transitions, "closed": closed, "depth": depth, "stats": stats}


def replay_record(make_spec, rec):
    """re-execute a recorded counterexample on the current tree; exit 1 if it still disagrees"""
    rp = rec["replay"]
    print(rec.get("what"))
    spec = make_spec(rp.get("capacity") or rp["init"][0])
    print(spec.snippet(rp["init"], [tuple(o) for o in rp["history"]]))
    spec.lines = None
    try:
        impl, model = spec.build(rp["init"])
        for op in rp["history"]:
            model = spec.step(impl, model, tuple(op))
        spec.check(impl, model)
    except Mismatch as m:
        print("REPRODUCED: %s: %s" % (m.kind, m.detail))
        return 1
    print("not reproduced on this tree")
    return 0
