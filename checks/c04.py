"""C04 -- worker lifecycle: begin first once, end last once, quota kept, none left running."""
from checks import pool_plans as P
from checks.poolmc import run_pool_check, replay_pool, Config


def run(report, tier):
    b = 1 if tier == "quick" else 2
    plan = [(P.U1(), 2 if tier == "quick" else 3, 0, None), (P.P5(), b, 0, None), (P.P6(), b, 0, None),
            (Config("U2", kind="factory", quota=1, workers=2, until_all_ready=True, calls=[("imap", "list", 2, 1)]), b, 0, None)]
    # finite quota in a plain FunctorPool (no replacement): two workers, quota 1, two chunks
    plan.append((Config("PQ", kind="functor", quota=1, workers=2, calls=[("imap", "list", 2, 1)]), b + 1, 0, None))
    plan.append((Config("PQ2", kind="functor", quota=2, workers=1, calls=[("imap_unordered", "list", 2, 1)]), b + 1, 0, None))
    # the boundary quota 0 next to an unlimited worker: the zero-quota worker begins, ends, and touches no chunk
    plan.append((Config("PQ0", kind="functor", quota=[0, None], workers=2, calls=[("imap", "list", 2, 1)]), b, 0, None))
    # finite quota with a bounded results queue: the worker's "results queue full" path
    plan.append((Config("QF", kind="factory", quota=1, workers=2, rq=1, calls=[("imap_unordered", "list", 3, 1)],
                        required=[r"except queue\.Full"]), 0 if tier == "quick" else 1, 0, None))
    plan.append((Config("QF2", kind="functor", quota=2, workers=2, rq=1, calls=[("imap", "list", 4, 1)]), b, 0, None))
    # until_all_ready() before every call and after the last one, with replacements in between
    plan.append((Config("U3", kind="factory", quota=1, workers=1, until_all_ready="each",
                        calls=[("imap", "list", 1, 1), ("imap", "list", 1, 1)]), b + 1, 0, None))
    plan.append((Config("U4", kind="factory", quota=1, workers=2, until_all_ready="each",
                        calls=[("imap_unordered", "list", 2, 1)]), b, 0, None))
    # until_all_ready() between the results of a running call, i.e. while the replacement thread is at work
    plan.append((Config("U5", kind="factory", quota=1, workers=1, until_all_ready="mid",
                        calls=[("imap_unordered", "list", 2, 1)]), b + 1, 0, None))
    plan.append((Config("U6", kind="factory", quota=1, workers=2, until_all_ready="mid",
                        calls=[("imap", "list", 2, 1)]), b, 0, None))
    # until_all_ready() on a pool with a join_timeout whose timers may expire early: it must still wait for begin()
    plan.append((Config("U7", kind="functor", workers=2, join_timeout=1, until_all_ready=True, calls=[("imap", "list", 2, 1)]),
                 b, 1, None))
    # an integer work-queue bound smaller than the number of workers: the stop tokens of __exit__ do not fit at once
    plan.append((Config("WQ1", kind="functor", workers=2, wq=1, calls=[("imap", "list", 2, 1)]), b, 0, None))
    plan.append((Config("WQ1f", kind="factory", quota=2, workers=3, wq=1, calls=[("imap_unordered", "list", 2, 1)]), b, 0, None))
    # faults: begin() raises in worker w; the functor raises at the j-th item
    for w in (0, 1):
        plan.append((Config("FB%d" % w, workers=2, until_all_ready=False, fault=("begin", w), family="FB",
                            calls=[("imap", "list", 2, 1)]), b, 0, None))
    for j in (0, 1, 2):
        plan.append((Config("FI%d" % j, workers=2, fault=("item", 100 + j), family="FI",
                            calls=[("imap", "list", 3, 1)]), b, 0, None))
    plan.append((Config("FQ", kind="factory", quota=1, workers=1, fault=("item", 101), family="FQ",
                        calls=[("imap", "list", 2, 1)]), b, 0, None))
    # the same for an exception that is not an Exception (sys.exit() / an interrupt inside begin or the functor)
    plan.append((Config("FBx", workers=2, fault=("begin", 0, "exit"), family="FBx", calls=[("imap", "list", 2, 1)]), b, 0, None))
    plan.append((Config("FIx", workers=2, fault=("item", 101, "exit"), family="FIx", calls=[("imap", "list", 3, 1)]), b, 0, None))
    run_pool_check(report, "C04", plan)


def replay(rec):
    return replay_pool(rec)
