"""C19 -- generic sequence helpers against their brute-force definitions.

roman      the complete domain 1..3999: int_2_roman == digit-table numeral; roman_2_int inverts it, both ways round
arg_sort   every sequence over {0,1,2} up to length L (list and tuple), reverse False/True, vs. a stable insertion sort
sub_seq / search_sub_seq   every pair of sequences over {0,1} up to length L (tuples and lists) vs. a naive scanner
compare_pos_in_iterables   every pair over {0,1,2} up to length 4 (lists and one-shot iterators) vs. multiset equality
Batcher / BatcherIter      every (n <= 9, batch size 1..10): single sequence / iterable and 2-tuples in lock-step
"""
import itertools

from mc.par import pmap
from mc.report import Report
from mc.seqmc import Mismatch, observe
from windpyutils.generic import (Batcher, BatcherIter, arg_sort, compare_pos_in_iterables, int_2_roman, roman_2_int,
                                 search_sub_seq, sub_seq)

PROP = "C19"

BOUNDS = {
    "quick": dict(argsort_len=5, pair_len=5, cmp_len=4, batch_n=9, batch_size=10),
    "thorough": dict(argsort_len=7, pair_len=7, cmp_len=5, batch_n=9, batch_size=10),
}


def fail(kind, fn, detail, **extra):
    return Mismatch(kind, detail, dict(extra, op=fn))


# ------------------------------------------------------------------------------------------------ roman numerals
ONES = ["", "I", "II", "III", "IV", "V", "VI", "VII", "VIII", "IX"]
TENS = ["", "X", "XX", "XXX", "XL", "L", "LX", "LXX", "LXXX", "XC"]
HUNDREDS = ["", "C", "CC", "CCC", "CD", "D", "DC", "DCC", "DCCC", "CM"]
THOUSANDS = ["", "M", "MM", "MMM"]


def ref_roman(n):
    return THOUSANDS[n // 1000] + HUNDREDS[n // 100 % 10] + TENS[n // 10 % 10] + ONES[n % 10]


def roman_case(n):
    exp = ref_roman(n)
    r = observe(int_2_roman, n)
    if r != ("ok", exp):
        raise fail("numeral-not-canonical", "int_2_roman", "int_2_roman(%d) -> %r, canonical numeral is %r" % (n, r, exp))
    r = observe(roman_2_int, exp)
    if r != ("ok", n):
        raise fail("numeral-misread", "roman_2_int", "roman_2_int(%r) -> %r, expected %d" % (exp, r, n))
    # mutually inverse, through the library only
    r = observe(lambda: roman_2_int(int_2_roman(n)))
    if r != ("ok", n):
        raise fail("not-inverse", "roman_2_int", "roman_2_int(int_2_roman(%d)) -> %r" % (n, r))
    r = observe(lambda: int_2_roman(roman_2_int(exp)))
    if r != ("ok", exp):
        raise fail("not-inverse", "int_2_roman", "int_2_roman(roman_2_int(%r)) -> %r" % (exp, r))


def run_roman(rep, seen, st):
    subtractive = 0
    for n in range(1, 4000):
        st["cases"] += 1
        st["evals"] += 4
        try:
            roman_case(n)
        except Mismatch as m:
            violate(rep, seen, m, {"part": "roman", "n": n}, n,
                    lambda: "from windpyutils.generic import int_2_roman, roman_2_int\n"
                            "print(int_2_roman(%d), roman_2_int(%r))" % (n, ref_roman(n)))
        if any(d in (4, 9) for d in (n % 10, n // 10 % 10, n // 100 % 10)):
            subtractive += 1
    st["nontrivial"] += subtractive
    st["roman_subtractive"] = subtractive
    rep.sample({"roman": {"n": 3949, "numeral": ref_roman(3949)}})


# ------------------------------------------------------------------------------------------------ arg_sort
def ref_arg_sort(seq, reverse):
    """stable insertion sort of the indices: an index moves left only past strictly greater (smaller) elements"""
    idx = []
    for i in range(len(seq)):
        j = len(idx)
        while j > 0 and (seq[idx[j - 1]] < seq[i] if reverse else seq[idx[j - 1]] > seq[i]):
            j -= 1
        idx.insert(j, i)
    return idx


def arg_sort_case(seq, reverse):
    exp = ref_arg_sort(seq, reverse)
    r = observe(arg_sort, seq, reverse) if reverse else observe(arg_sort, seq)
    if r != ("ok", exp):
        if r[0] == "ok" and isinstance(r[1], list) and sorted(r[1]) == list(range(len(seq))) and \
                [seq[i] for i in r[1]] == [seq[i] for i in exp]:
            kind = "not-stable"
        else:
            kind = "not-the-sorting-permutation"
        raise fail(kind, "arg_sort", "arg_sort(%r, reverse=%r) -> %r, stable sorting permutation is %r" % (seq, reverse, r, exp),
                   reverse=reverse)


def run_arg_sort(rep, seen, st, maxlen):
    for n in range(maxlen + 1):
        for t in itertools.product((0, 1, 2), repeat=n):
            for seq in (list(t), t):
                for reverse in (False, True):
                    st["cases"] += 1
                    st["evals"] += 1
                    try:
                        arg_sort_case(seq, reverse)
                    except Mismatch as m:
                        violate(rep, seen, m, {"part": "arg_sort", "seq": list(t), "tuple": seq is t, "reverse": reverse}, 10 * n + sum(t),
                                lambda: "from windpyutils.generic import arg_sort\nprint(arg_sort(%r, reverse=%r))" % (seq, reverse))
            if len(set(t)) < n:
                st["nontrivial"] += 4          # equal keys: stability matters
    rep.sample({"arg_sort": {"seq": [2, 0, 2, 1, 0], "reverse": True, "expected": ref_arg_sort([2, 0, 2, 1, 0], True)}})


# ------------------------------------------------------------------------------------------------ sub_seq, search_sub_seq
def ref_occurrences(s1, s2):
    res = []
    for o in range(len(s2) - len(s1) + 1):
        same = True
        for k in range(len(s1)):
            if s1[k] != s2[o + k]:
                same = False
                break
        if same:
            res.append((o, o + len(s1)))
    return res


def sub_seq_case(s1, s2):
    """returns True when two occurrences overlap (non-trivial)"""
    occ = ref_occurrences(s1, s2)
    r = observe(sub_seq, s1, s2)
    if r[0] != "ok" or r[1] is not bool(occ):
        raise fail("wrong-answer", "sub_seq", "sub_seq(%r, %r) -> %r, contiguous occurrences at %r" % (s1, s2, r, occ),
                   expected=bool(occ))
    r = observe(search_sub_seq, s1, s2)
    if len(s1) == 0 or len(s2) == 0:
        # documented: ":raise ValueError: When one of input sequences haves zero len."
        if r != ("exc", "ValueError"):
            raise fail("empty-input-not-rejected", "search_sub_seq", "search_sub_seq(%r, %r) -> %r, documented ValueError" % (s1, s2, r))
        return False
    if r[0] != "ok" or not isinstance(r[1], list):
        raise fail("raises", "search_sub_seq", "search_sub_seq(%r, %r) -> %r" % (s1, s2, r))
    got = sorted(tuple(x) if isinstance(x, (tuple, list)) else x for x in r[1])     # the order of the spans is not stated
    if got != occ:
        if len(got) < len(occ) and all(x in occ for x in got):
            kind = "occurrences-missing"
        elif len(got) > len(occ):
            kind = "occurrences-invented-or-repeated"
        else:
            kind = "wrong-spans"
        raise fail(kind, "search_sub_seq", "search_sub_seq(%r, %r) -> %r, occurrences are %r" % (s1, s2, r[1], occ))
    return any(a[1] > b[0] for a, b in zip(occ, occ[1:]))


def pairs_worker(task):
    maxlen, n1, as_list = task
    rep = Report(PROP, collect_only=True)
    seen = {}
    st = new_stats()
    conv = list if as_list else tuple
    seqs2 = [conv(t) for n in range(maxlen + 1) for t in itertools.product((0, 1), repeat=n)]
    for t1 in itertools.product((0, 1), repeat=n1):
        s1 = conv(t1)
        for s2 in seqs2:
            st["cases"] += 1
            st["evals"] += 2
            try:
                if sub_seq_case(s1, s2):
                    st["nontrivial"] += 1
            except Mismatch as m:
                violate(rep, seen, m, {"part": "sub_seq", "s1": list(s1), "s2": list(s2), "lists": as_list}, 10 * (len(s1) + len(s2)) + sum(s1) + sum(s2),
                        lambda: "from windpyutils.generic import sub_seq, search_sub_seq\nprint(sub_seq(%r, %r))\n"
                                "print(search_sub_seq(%r, %r))" % (s1, s2, s1, s2))
    return dump(rep, seen), st


# ------------------------------------------------------------------------------------------------ compare_pos_in_iterables
def ref_multiset_equal(a, b):
    ca, cb = {}, {}
    for x in a:
        ca[x] = ca.get(x, 0) + 1
    for x in b:
        cb[x] = cb.get(x, 0) + 1
    return ca == cb


def run_compare(rep, seen, st, maxlen):
    seqs = [t for n in range(maxlen + 1) for t in itertools.product((0, 1, 2), repeat=n)]
    for a in seqs:
        for b in seqs:
            exp = ref_multiset_equal(a, b)
            for form in ("lists", "iterators"):
                st["cases"] += 1
                st["evals"] += 1
                if form == "lists":
                    # the same two list objects are compared twice: a pure comparison gives the same answer and
                    # leaves its arguments alone; and a list is always a permutation of itself
                    la, lb = list(a), list(b)
                    r = observe(compare_pos_in_iterables, la, lb)
                    r2 = observe(compare_pos_in_iterables, la, lb)
                    same_obj = observe(compare_pos_in_iterables, la, la) if a == b else ("ok", True)
                    if r2 != r or la != list(a) or lb != list(b) or same_obj != ("ok", True):
                        m = fail("not-a-pure-comparison", "compare_pos_in_iterables",
                                 "x=%r; y=%r: compare(x, y) -> %r, again -> %r, arguments afterwards %r %r, compare(x, x) -> %r" % (
                                     list(a), list(b), r, r2, la, lb, same_obj), expected=exp)
                        violate(rep, seen, m, {"part": "compare", "a": list(a), "b": list(b), "form": "lists-twice"},
                                10 * (len(a) + len(b)) + sum(a) + sum(b),
                                lambda: "from windpyutils.generic import compare_pos_in_iterables\nx, y = %r, %r\n"
                                        "print(compare_pos_in_iterables(x, y), compare_pos_in_iterables(x, y), x, y)" % (list(a), list(b)))
                else:
                    r = observe(compare_pos_in_iterables, iter(a), iter(b))
                if r[0] != "ok" or r[1] is not exp:
                    m = fail("wrong-answer", "compare_pos_in_iterables", "compare_pos_in_iterables(%r, %r) [%s] -> %r, multiset equality is %r" % (
                        list(a), list(b), form, r, exp), expected=exp)
                    violate(rep, seen, m, {"part": "compare", "a": list(a), "b": list(b), "form": form}, 10 * (len(a) + len(b)) + sum(a) + sum(b),
                            lambda: "from windpyutils.generic import compare_pos_in_iterables\nprint(compare_pos_in_iterables(%r, %r))" % (list(a), list(b)))
            if len(a) == len(b) and a != b and len(a) > 1:
                st["nontrivial"] += 1          # same length, different order or content: the interesting half
    rep.sample({"compare_pos_in_iterables": {"a": [0, 1, 1], "b": [1, 0, 1], "expected": True}})


# ------------------------------------------------------------------------------------------------ Batcher, BatcherIter
def check_batches(fn, batches, data, bs, tup):
    """batches: list of batches (each a sequence, or a tuple of sequences when tup); data: list, or tuple of lists"""
    columns = data if tup else (data,)
    n = len(columns[0])
    exp_count = (n + bs - 1) // bs
    cols = []
    for bi, batch in enumerate(batches):
        if tup:
            if not isinstance(batch, tuple) or len(batch) != len(columns):
                raise fail("batch-shape", fn, "batch %d is %r, expected a tuple with one batch per input" % (bi, batch))
            parts = [list(x) for x in batch]
        else:
            parts = [list(batch)]
        sizes = set(len(p) for p in parts)
        if len(sizes) != 1:
            raise fail("not-lock-step", fn, "batch %d has parts of sizes %r" % (bi, [len(p) for p in parts]))
        cols.append(parts)
    concat = [[x for parts in cols for x in parts[c]] for c in range(len(columns))]
    sizes = [len(parts[0]) for parts in cols]
    if concat != [list(c) for c in columns]:
        if all(len(c) < n for c in concat) and all(list(col[:len(c)]) == c for c, col in zip(concat, columns)):
            kind = "tail-dropped"
        else:
            kind = "concatenation-differs"
        raise fail(kind, fn, "concatenated batches %r, input %r (batch sizes %r)" % (concat if tup else concat[0], data, sizes))
    if any(s != bs for s in sizes[:-1]) or (sizes and not 0 < sizes[-1] <= bs):
        raise fail("batch-sizes", fn, "batch sizes %r for n=%d, batch_size=%d" % (sizes, n, bs))
    if len(batches) != exp_count:
        raise AssertionError("sizes right, concatenation right, count wrong?")


def batcher_case(n, bs, shape):
    """shape: 'list' / 'range' / 'str' (single sequence) / 'tuple2' (two lists in lock-step)"""
    if shape == "list":
        data = [100 + i for i in range(n)]
    elif shape == "range":
        data = range(n)
    elif shape == "str":
        data = "abcdefghijklm"[:n]
    else:
        data = ([100 + i for i in range(n)], ["s%d" % i for i in range(n)])
    tup = shape == "tuple2"
    ref = tuple(list(c) for c in data) if tup else list(data)
    r = observe(Batcher, data, bs)
    if r[0] != "ok":
        raise fail("raises", "Batcher", "Batcher(n=%d %s, %d) -> %r" % (n, shape, bs, r))
    b = r[1]
    count = (n + bs - 1) // bs
    r = observe(len, b)
    if r != ("ok", count):
        raise fail("len", "Batcher", "len(Batcher(n=%d %s, %d)) -> %r, ceil(n/batch_size) = %d" % (n, shape, bs, r, count))
    batches = []
    for i in range(count):
        r = observe(lambda: b[i])
        if r[0] != "ok":
            raise fail("getitem-raises", "Batcher", "Batcher(n=%d %s, %d)[%d] -> %r" % (n, shape, bs, i, r))
        batches.append(r[1])
    check_batches("Batcher", batches, ref, bs, tup)
    for i in (count, count + 1):
        r = observe(lambda: b[i])
        if r != ("exc", "IndexError"):
            raise fail("index-past-end-not-rejected", "Batcher", "Batcher(n=%d %s, %d)[%d] -> %r with %d batches" % (n, shape, bs, i, r, count))
    # iteration (old protocol through __getitem__/IndexError) gives the same batches
    r = observe(lambda: list(itertools.islice(iter(b), count + 2)))
    if r[0] != "ok":
        raise fail("iteration-raises", "Batcher", "list(Batcher(n=%d %s, %d)) -> %r" % (n, shape, bs, r))
    check_batches("Batcher", r[1], ref, bs, tup)


def batcher_iter_case(n, bs, shape):
    """shape: 'list' / 'generator' (single) / 'tuple2' (list + generator in lock-step)"""
    base = [100 + i for i in range(n)]
    if shape == "list":
        data, ref, tup = list(base), base, False
    elif shape == "generator":
        data, ref, tup = (x for x in base), base, False
    elif shape == "tuple2lists":
        second = ["s%d" % i for i in range(n)]
        data, ref, tup = (list(base), list(second)), (base, second), True
    else:
        second = ["s%d" % i for i in range(n)]
        data, ref, tup = (list(base), (x for x in second)), (base, second), True
    r = observe(BatcherIter, data, bs)
    if r[0] != "ok":
        raise fail("raises", "BatcherIter", "BatcherIter(n=%d %s, %d) -> %r" % (n, shape, bs, r))
    b = r[1]
    r = observe(lambda: list(itertools.islice(iter(b), n + 2)))
    if r[0] != "ok":
        raise fail("iteration-raises", "BatcherIter", "list(BatcherIter(n=%d %s, %d)) -> %r" % (n, shape, bs, r))
    # a yielded batch must not be mutated afterwards (it is compared after the whole iteration)
    check_batches("BatcherIter", r[1], ref, bs, tup)
    if shape in ("list", "tuple2lists"):
        # re-iterable input: every pass over the same BatcherIter gives the same batches, also a pass started
        # while another one is under way
        it1 = iter(b)
        first = observe(lambda: list(itertools.islice(it1, 1)))
        r2 = observe(lambda: list(itertools.islice(iter(b), n + 2)))
        rest = observe(lambda: list(itertools.islice(it1, n + 2)))
        if r2[0] != "ok" or first[0] != "ok" or rest[0] != "ok":
            raise fail("iteration-raises", "BatcherIter", "second pass over BatcherIter(n=%d %s, %d) -> %r / %r / %r" % (
                n, shape, bs, first, r2, rest))
        if r2[1] != r[1] or first[1] + rest[1] != r[1]:
            raise fail("second-pass-differs", "BatcherIter", "BatcherIter(n=%d %s, %d): first pass %r, a second pass %r, "
                       "a pass interleaved with it %r" % (n, shape, bs, r[1], r2[1], first[1] + rest[1]))


def run_batchers(rep, seen, st, nmax, bsmax):
    for n in range(nmax + 1):
        for bs in range(1, bsmax + 1):
            for cls, fn, shapes in (("Batcher", batcher_case, ("list", "range", "str", "tuple2")),
                                    ("BatcherIter", batcher_iter_case, ("list", "generator", "tuple2", "tuple2lists"))):
                for shape in shapes:
                    st["cases"] += 1
                    st["evals"] += (n + bs - 1) // bs + 3
                    try:
                        fn(n, bs, shape)
                    except Mismatch as m:
                        violate(rep, seen, m, {"part": cls, "n": n, "batch_size": bs, "shape": shape}, 100 * n + bs,
                                lambda: batch_snippet(cls, n, bs, shape))
                    if n % bs and n > bs:
                        st["nontrivial"] += 1      # several batches and a shorter last one
    for bs in (0, -1):
        for cls, ctor, data in (("Batcher", Batcher, [1, 2, 3]), ("Batcher", Batcher, ([1, 2], [3, 4])),
                                ("BatcherIter", BatcherIter, [1, 2, 3]), ("BatcherIter", BatcherIter, ([1, 2], [3, 4]))):
            st["cases"] += 1
            st["evals"] += 1
            r = observe(ctor, data, bs)
            if r != ("exc", "ValueError"):
                shown = ("ok", type(r[1]).__name__ + " object") if r[0] == "ok" else r
                m = fail("invalid-batch-size-accepted", cls, "%s(%r, %d) -> %r, documented ValueError" % (cls, data, bs, shown))
                violate(rep, seen, m, {"part": cls + "-invalid", "batch_size": bs}, 0,
                        lambda: "from windpyutils.generic import %s\n%s(%r, %d)" % (cls, cls, data, bs))
    rep.sample({"Batcher": {"n": 7, "batch_size": 3, "shapes": ["list", "range", "str", "tuple2"], "expected_sizes": [3, 3, 1]}})


def batch_snippet(cls, n, bs, shape):
    data = {"list": "list(range(%d))" % n, "range": "range(%d)" % n, "str": repr("abcdefghijklm"[:n]),
            "generator": "(x for x in range(%d))" % n}.get(shape)
    if data is None:
        data = ("(list(range(%d)), [str(i) for i in range(%d)])" if cls == "Batcher" else
                "(list(range(%d)), (str(i) for i in range(%d)))") % (n, n)
    if cls == "Batcher":
        return ("from windpyutils.generic import Batcher\nb = Batcher(%s, %d)\nprint(len(b), [b[i] for i in range(len(b))])\nb[len(b)]  # IndexError"
                % (data, bs))
    return "from windpyutils.generic import BatcherIter\nprint(list(BatcherIter(%s, %d)))" % (data, bs)


# ------------------------------------------------------------------------------------------------
def new_stats():
    return {"cases": 0, "evals": 0, "nontrivial": 0}


def violate(rep, seen, m, case, size, snippet):
    """per signature the smallest case seen by this worker is the one reported"""
    sig = {"spec": m.sig_extra["op"], "kind": m.kind}
    sig.update(m.sig_extra)
    key = repr(sorted(sig.items()))
    if key in seen and seen[key][0] <= size:
        seen[key][3] += 1
        return
    cnt = seen[key][3] + 1 if key in seen else 1
    seen[key] = [size, sig, ("%s: %s: %s" % (sig["spec"], m.kind, m.detail),
                             {"engine": "inputs", "case": case, "size": size, "detail": m.detail, "snippet": snippet()}), cnt]


def dump(rep, seen):
    for size, sig, (what, replay), cnt in seen.values():
        rep.violation(sig, what, replay)
        for _ in range(cnt - 1):
            rep.violation(sig, "", {})
    return rep.dump()


def small_worker(task):
    rep = Report(PROP, collect_only=True)
    seen = {}
    st = new_stats()
    if task[0] == "roman":
        run_roman(rep, seen, st)
    elif task[0] == "arg_sort":
        run_arg_sort(rep, seen, st, task[1])
    elif task[0] == "compare":
        run_compare(rep, seen, st, task[1])
    else:
        run_batchers(rep, seen, st, task[1], task[2])
    return dump(rep, seen), st


def dispatch(task):
    return pairs_worker(task[1:]) if task[0] == "pairs" else small_worker(task)


def run(report, tier):
    b = BOUNDS[tier]
    report.rule("one case = one input (an integer; a sequence x reverse flag; a pair of sequences; an (n, batch size, input shape) "
                "triple), evaluations = library results compared with the reference implementation written in the check; "
                "non-trivial = numerals with a subtractive digit, sequences with equal keys, pairs with overlapping occurrences, "
                "same-length unequal pairs, shapes with several batches and a shorter last one")
    tasks = [("roman",), ("arg_sort", b["argsort_len"]), ("compare", b["cmp_len"]), ("batchers", b["batch_n"], b["batch_size"])]
    names = ["roman 1..3999", "arg_sort {0,1,2}^<=%d x list/tuple x reverse" % b["argsort_len"],
             "compare_pos_in_iterables pairs over {0,1,2}^<=%d x lists/iterators" % b["cmp_len"],
             "Batcher/BatcherIter n<=%d x batch_size<=%d x shapes (+ invalid batch sizes)" % (b["batch_n"], b["batch_size"])]
    n_small = len(tasks)
    for as_list in (False, True):
        for n1 in range(b["pair_len"] + 1):
            tasks.append(("pairs", b["pair_len"], n1, as_list))
    res = pmap(dispatch, tasks)
    best = {}
    for d, _ in res:
        for key, (sig, what, replay, cnt) in d["pending"].items():
            if key not in best or replay["size"] < best[key][1]["size"]:
                best[key] = (what, replay)
    for d, _ in res:
        for key, v in d["pending"].items():
            v[1], v[2] = best[key]
        report.merge(d)
    for name, (_, st) in zip(names, res[:n_small]):
        report.part(name, states=st["cases"], transitions=st["cases"], traces_validated_against_impl=st["cases"],
                    evaluations=st["evals"], nontrivial=st["nontrivial"], exhaustive=True)
        report.nontrivial_n(st["nontrivial"])
    tot = {k: sum(st[k] for _, st in res[n_small:]) for k in new_stats()}
    report.part("sub_seq/search_sub_seq pairs over {0,1}^<=%d x tuples/lists" % b["pair_len"], states=tot["cases"], transitions=tot["cases"],
                traces_validated_against_impl=tot["cases"], evaluations=tot["evals"], nontrivial=tot["nontrivial"], exhaustive=True)
    report.nontrivial_n(tot["nontrivial"])
    report.sample({"search_sub_seq": {"s1": [1, 1], "s2": [1, 1, 1, 0, 1], "expected": ref_occurrences([1, 1], [1, 1, 1, 0, 1])}})


def replay(rec):
    case = rec["replay"]["case"]
    print(rec["what"])
    print("--- snippet ---")
    print(rec["replay"].get("snippet"))
    part = case["part"]
    try:
        if part == "roman":
            roman_case(case["n"])
        elif part == "arg_sort":
            arg_sort_case(tuple(case["seq"]) if case["tuple"] else list(case["seq"]), case["reverse"])
        elif part == "sub_seq":
            conv = list if case["lists"] else tuple
            sub_seq_case(conv(case["s1"]), conv(case["s2"]))
        elif part == "compare":
            r = observe(compare_pos_in_iterables, list(case["a"]), list(case["b"]))
            if r != ("ok", ref_multiset_equal(case["a"], case["b"])):
                raise fail("wrong-answer", "compare_pos_in_iterables", "-> %r" % (r,))
        elif part == "Batcher":
            batcher_case(case["n"], case["batch_size"], case["shape"])
        elif part == "BatcherIter":
            batcher_iter_case(case["n"], case["batch_size"], case["shape"])
        else:
            cls = Batcher if part.startswith("Batcher-") else BatcherIter
            r = observe(cls, [1, 2, 3], case["batch_size"])
            if r != ("exc", "ValueError"):
                raise fail("invalid-batch-size-accepted", part, "-> %r" % (r,))
    except Mismatch as m:
        print("--- reproduced: %s: %s" % (m.kind, m.detail))
        return 1
    print("--- not reproduced on this tree")
    return 0
