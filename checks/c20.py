"""C20 -- TmpPool and FilePool leave nothing behind.

Four exhaustive parts, every case executed on the real classes inside a real ``with`` statement:

* TmpPool/single      every sequence (depth <= 5 quick / 8 thorough) over create, remove(i-th listed path),
                      unlink(i-th listed path, i.e. somebody deletes the file behind the pool's back),
                      remove(a path removed before), flush -- each followed by every way of leaving the
                      block (normally, raising an Exception, raising a BaseException, letting the pool's own
                      exception of remove(gone) escape).  d given explicitly, and d=None with tempfile.tempdir
                      pointed at the scratch directory (depth <= 3 / 6).
* TmpPool/multi_proc  the real multiprocessing.Manager: every sequence (depth <= 3 / 4) over create@parent,
                      create@child A, create@child B, remove(i), flush x {children forked when the block is
                      entered (this is what tests/test_files.py does with FunctorPool), children forked at
                      their first create} x {normal exit, raise}.  Children are real fork-context
                      multiprocessing.Process objects which run one command to completion before the next
                      operation starts: the history is enumerated, not the schedule.
* FilePool            every subset of three existing files x modes r/w/a/rb x list / one-shot iterator x
                      every sequence of <= 2 / 3 mapping operations x every way of leaving the block.
* FilePool/failed-enter   (observed, NOT judged: a failed __enter__ is not "leaving the context")

Oracle (TmpPool) after every step: the returned path is new and an existing regular file, the pool lists
(len/getitem/iteration) exactly the reference multiset, os.listdir(d) is exactly the reference set minus the
externally unlinked files; after flush() and after leaving the block the directory is empty, and the exception
that left the block is the very object that was raised.  What remove() of an unlisted path does is not defined
by the statement: any outcome is accepted, the state oracle is applied afterwards.
Oracle (FilePool): inside, keys == given paths, every handle open, handle.mode == requested mode, handle.name
== path, absent path -> KeyError; afterwards every handle ever handed out is closed and the number of open file
descriptors of the process is what it was before the block (implementation independent).

Real multiprocessing hygiene (DESIGN appendix G): the multi_proc histories run in os.fork()ed shard processes
(pool workers of mc.par are daemonic and may not start a Manager) which call setsid(), write to a log file, have
a faulthandler watchdog; the parent waits with a deadline, then scans the shard's process group for survivors
(leaked managers) and kills the group.
"""
import faulthandler
import gc
import itertools
import json
import multiprocessing
import os
import pickle
import shutil
import signal
import stat
import sys
import tempfile
import time
import traceback

from mc import par
from mc.report import Report
from mc.seqmc import Mismatch, observe

from windpyutils.files import TmpPool, FilePool

PROP = "C20"
CHILD_OP_TIMEOUT = float(os.environ.get("VERIF_C20_CHILD_TIMEOUT", "20"))          # s, watchdog only: a timeout is a harness error, never a verdict
CASE_WATCHDOG = 90               # s, faulthandler watchdog of a shard, re-armed for every case


class BodyError(Exception):
    """raised by the with-body (an ordinary exception)"""


class BodyBaseError(BaseException):
    """raised by the with-body (like KeyboardInterrupt / GeneratorExit: not an Exception)"""


class HarnessTimeout(Exception):
    pass


# ------------------------------------------------------------------------------------------------
# helpers
# ------------------------------------------------------------------------------------------------

def nfds():
    return len(os.listdir("/proc/self/fd"))


def proc_table():
    """-> list of (pid, state, ppid, pgrp)"""
    out = []
    for name in os.listdir("/proc"):
        if not name.isdigit():
            continue
        try:
            with open("/proc/%s/stat" % name) as f:
                s = f.read()
        except OSError:
            continue
        rest = s[s.rindex(")") + 2:].split()
        out.append((int(name), rest[0], int(rest[1]), int(rest[2])))
    return out


def live_children(pid):
    return sorted(p for p, st, pp, pg in proc_table() if pp == pid and st != "Z")


def group_members(pgid):
    return sorted(p for p, st, pp, pg in proc_table() if pg == pgid and st != "Z")


class Collector:
    """per-worker accumulation; per signature the failing case with the smallest index (= shortest) is kept"""

    def __init__(self):
        self.viol = {}      # signature key -> [signature, what, replay, count, case index]
        self.harness = []
        self.cases = 0
        self.steps = 0
        self.evals = 0
        self.nontrivial = 0
        self.states = set()
        self.obs = {}

    def count(self, key, n=1):
        self.obs[key] = self.obs.get(key, 0) + n

    def violation(self, idx, sig, what, replay):
        key = json.dumps(sig, sort_keys=True)      # the key format of mc.report
        v = self.viol.get(key)
        if v is None:
            self.viol[key] = [sig, what, replay, 1, idx]
        else:
            v[3] += 1
            if idx < v[4]:
                v[:3] = [sig, what, replay]
                v[4] = idx

    def dump(self):
        return {"viol": self.viol, "harness": self.harness, "cases": self.cases, "steps": self.steps, "evals": self.evals,
                "nontrivial": self.nontrivial, "states": self.states, "obs": self.obs}


def merge_dumps(report, dumps):
    tot = {"cases": 0, "steps": 0, "evals": 0, "nontrivial": 0, "states": set(), "obs": {}}
    viol = {}
    harness = []
    for d in dumps:
        harness.extend(d["harness"])
        for key, v in d["viol"].items():
            w = viol.get(key)
            if w is None:
                viol[key] = list(v)
            else:
                w[3] += v[3]
                if v[4] < w[4]:
                    w[:3] = v[:3]
                    w[4] = v[4]
    report.merge({"cov": {}, "pending": {k: v[:4] for k, v in sorted(viol.items(), key=lambda kv: kv[1][4])},
                  "nontrivial": set(), "assumptions": [], "harness_errors": harness})
    for d in dumps:
        for k in ("cases", "steps", "evals", "nontrivial"):
            tot[k] += d[k]
        tot["states"] |= d["states"]
        for k, v in d["obs"].items():
            tot["obs"][k] = tot["obs"].get(k, 0) + v
    return tot


# ------------------------------------------------------------------------------------------------
# TmpPool: reference model + symbolic enumeration (the menu depends on the reference only)
# ------------------------------------------------------------------------------------------------

def sp_ops(state):
    flags, gone = state
    ops = [("create",)]
    ops += [("remove", i) for i in range(len(flags))]
    ops += [("unlink", i) for i, u in enumerate(flags) if not u]
    if gone:
        ops.append(("remove_gone",))
    ops.append(("flush",))
    return ops


def sp_next(state, op):
    flags, gone = state
    k = op[0]
    if k == "create":
        return flags + (False,), gone
    if k == "remove":
        return flags[:op[1]] + flags[op[1] + 1:], True
    if k == "unlink":
        return flags[:op[1]] + (True,) + flags[op[1] + 1:], gone
    if k == "remove_gone":
        return state
    if k == "flush":
        return (), gone or bool(flags)
    raise AssertionError(op)


def sp_histories(depth):
    """all op sequences of length <= depth, shortest first, with the reference state they end in"""
    out = []
    level = [((), ((), False))]
    for _ in range(depth + 1):
        out.extend(level)
        nxt = []
        for hist, st in level:
            for op in sp_ops(st):
                nxt.append((hist + (op,), sp_next(st, op)))
        level = nxt
    return out


def sp_exits(state):
    ex = ["normal", "raise", "raise_base"]
    if state[1]:
        ex.append("escape")       # the exception of pool.remove(<gone path>) leaves the block uncaught
    return ex


def mp_ops(n):
    return ([("create", a) for a in "PAB"] + [("remove", i) for i in range(n)] + [("flush",)])


def mp_histories(depth):
    out = []
    level = [((), 0)]
    for _ in range(depth + 1):
        out.extend(level)
        nxt = []
        for hist, n in level:
            for op in mp_ops(n):
                n2 = n + 1 if op[0] == "create" else (n - 1 if op[0] == "remove" else 0)
                nxt.append((hist + (op,), n2))
        level = nxt
    return [h for h, _ in out]


# ------------------------------------------------------------------------------------------------
# TmpPool driver (single- and multi-process)
# ------------------------------------------------------------------------------------------------

def _child_loop(pool, conn):
    """body of a child process of a multi_proc pool: children only create"""
    while True:
        try:
            cmd = conn.recv()
        except EOFError:
            break
        if cmd != "create":
            break
        conn.send(observe(pool.create))


class Driver:
    def __init__(self, d, multi, forkmode=None):
        self.d = d
        self.multi = multi
        self.forkmode = forkmode
        self.pool = None
        self.ref = []           # listed paths in creation order
        self.unlinked = set()   # listed, but deleted from disk behind the pool's back
        self.gone = []          # removed / flushed paths
        self.children = {}      # name -> (Process, Connection)
        self.flushed_since_fork = {}
        self.flushes = 0
        self.cleanup_work = 0   # files that flush / exit had to delete
        self.stale_creates = 0  # creates by a child that was forked before a flush

    # -- children ---------------------------------------------------------------------------------
    def spawn(self, name):
        ctx = multiprocessing.get_context("fork")
        a, b = ctx.Pipe()
        p = ctx.Process(target=_child_loop, args=(self.pool, b), daemon=True)
        p.start()
        b.close()
        self.children[name] = (p, a)
        self.flushed_since_fork[name] = False

    def stop_children(self):
        for name, (p, a) in list(self.children.items()):
            try:
                a.send("quit")
            except OSError:
                pass
            p.join(min(5.0, CHILD_OP_TIMEOUT))
            if p.is_alive():
                p.kill()
                p.join()
            a.close()
        self.children = {}

    # -- oracle -----------------------------------------------------------------------------------
    def check(self, after):
        pool = self.pool
        r = observe(len, pool)
        if r != ("ok", len(self.ref)):
            raise Mismatch("list-mismatch", "after %s: len(pool) -> %r, reference lists %d paths" % (
                after, r, len(self.ref)), {"via": "len"})
        r = observe(lambda: [pool[i] for i in range(len(self.ref))])
        if r[0] != "ok" or sorted(r[1]) != sorted(self.ref):
            raise Mismatch("list-mismatch", "after %s: [pool[i]] -> %s, reference %s" % (
                after, self.show(r), self.names(self.ref)), {"via": "getitem"})
        r = observe(list, pool)
        if r[0] != "ok" or sorted(r[1]) != sorted(self.ref):
            raise Mismatch("list-mismatch", "after %s: list(pool) -> %s, reference %s" % (
                after, self.show(r), self.names(self.ref)), {"via": "iter"})
        self.check_disk(after)

    def check_disk(self, after, expect_empty=False):
        disk = sorted(os.listdir(self.d))
        exp = [] if expect_empty else sorted(os.path.basename(p) for p in self.ref if p not in self.unlinked)
        if disk != exp:
            extra = [x for x in disk if x not in exp]
            missing = [x for x in exp if x not in disk]
            kind = "left-behind" if extra and not missing else ("file-missing" if missing and not extra
                                                                else "disk-mismatch")
            raise Mismatch(kind, "after %s: directory holds %d file(s), expected %d (unexpected: %d, missing: %d)"
                           % (after, len(disk), len(exp), len(extra), len(missing)))

    def names(self, paths):
        return [self.name(p) for p in paths]

    def name(self, p):
        for i, q in enumerate(self.ref):
            if p == q:
                return "live%d" % i
        for i, q in enumerate(self.gone):
            if p == q:
                return "gone%d" % i
        return "other"

    def show(self, r):
        if r[0] == "ok" and isinstance(r[1], list):
            return repr(self.names(r[1]))
        return repr(r)

    # -- operations -------------------------------------------------------------------------------
    def step(self, op):
        k = op[0]
        pool = self.pool
        if k == "create":
            actor = op[1] if len(op) > 1 else "P"
            if actor == "P":
                r = observe(pool.create)
            else:
                if actor not in self.children:
                    self.spawn(actor)
                p, conn = self.children[actor]
                self.stale_creates += self.flushed_since_fork[actor]
                conn.send("create")
                if not conn.poll(CHILD_OP_TIMEOUT):
                    raise HarnessTimeout("child %s did not answer create within %.0f s" % (actor, CHILD_OP_TIMEOUT))
                r = conn.recv()
            extra = {}
            if actor != "P":
                extra = {"actor": "child", "child_forked_before_a_flush": self.flushed_since_fork[actor]}
            elif self.multi:
                extra = {"actor": "parent"}
            self.extra = extra
            if r[0] != "ok" or not isinstance(r[1], str):
                raise Mismatch("raises", "create() -> %r" % (r,), extra)
            p_ = r[1]
            if p_ in self.ref:
                raise Mismatch("create-not-distinct", "create() returned a path that is still listed", extra)
            try:
                st = os.lstat(p_)
                isfile = stat.S_ISREG(st.st_mode)
            except OSError:
                isfile = False
            if not isfile:
                raise Mismatch("create-not-a-file", "create() returned a path that is not an existing file", extra)
            self.ref.append(p_)
            try:
                self.check("create by %s" % ("the parent" if actor == "P" else "a child process"))
            except Mismatch as m:
                m.sig_extra = dict(m.sig_extra, **extra)
                raise
            return
        if k == "remove":
            p_ = self.ref[op[1]]
            was_unlinked = p_ in self.unlinked
            r = observe(pool.remove, p_)
            if r[0] != "ok":
                raise Mismatch("raises", "remove(listed path%s) -> %r" % (
                    ", file already deleted" if was_unlinked else "", r), {"file_already_deleted": was_unlinked})
            self.ref.pop(op[1])
            self.unlinked.discard(p_)
            self.gone.append(p_)
            self.check("remove")
            return
        if k == "unlink":
            p_ = self.ref[op[1]]
            os.remove(p_)           # the environment, not the pool
            self.unlinked.add(p_)
            self.check("external unlink")
            return
        if k == "remove_gone":
            r = observe(pool.remove, self.gone[-1])
            self.last_gone = r      # not defined by the statement: any outcome, state must be intact
            self.check("remove(path removed before)")
            return
        if k == "flush":
            self.cleanup_work += len(self.ref) - len(self.unlinked)
            r = observe(pool.flush)
            if r[0] != "ok":
                raise Mismatch("raises", "flush() -> %r with %d listed (%d already deleted)" % (
                    r, len(self.ref), len(self.unlinked)), {"some_file_already_deleted": bool(self.unlinked)})
            self.gone.extend(self.ref)
            self.ref = []
            self.unlinked = set()
            self.flushes += 1
            for c in self.flushed_since_fork:
                self.flushed_since_fork[c] = True
            self.check_disk("flush", expect_empty=True)
            self.check("flush")
            return
        raise AssertionError(op)


def run_tmppool_case(col, workdir, case):
    """case = dict(part, hist, exit, dmode|forkmode).  Returns nothing; violations go to col."""
    hist = [tuple(o) for o in case["hist"]]
    exit_mode = case["exit"]
    multi = case["part"] == "mp"
    d = tempfile.mkdtemp(prefix="c", dir=workdir)
    drv = Driver(d, multi, case.get("forkmode"))
    old_tempdir = tempfile.tempdir
    inner = outer = None
    body_done = False
    failures = []           # (Mismatch, op)
    cur = [None]

    def fail(m, op):
        failures.append((m, op))

    decoy = decoy_path = None
    try:
        if not multi:
            # a second single-process pool that is alive the whole time and owns one file: pools are independent
            decoy_dir = tempfile.mkdtemp(prefix="decoy", dir=workdir)
            decoy = TmpPool(decoy_dir)
            decoy.__enter__()
            decoy_path = decoy.create()
        if multi:
            pool_obj = TmpPool(d, multi_proc=True)
        elif case.get("dmode") == "default":
            tempfile.tempdir = d
            pool_obj = TmpPool()
        else:
            pool_obj = TmpPool(d)
        try:
            with pool_obj as pool:
                drv.pool = pool
                try:
                    try:
                        if multi and case["forkmode"] == "eager":
                            drv.spawn("A")
                            drv.spawn("B")
                        drv.check("entering the context")
                        col.evals += 1
                        for op in hist:
                            cur[0] = op
                            drv.extra = {}
                            drv.step(op)
                            col.steps += 1
                            col.evals += 1
                    except Mismatch as m:
                        fail(m, cur[0])
                    finally:
                        cur[0] = None
                        drv.stop_children()
                    col.count("exit_with_files_on_disk", 1 if len(drv.ref) > len(drv.unlinked) else 0)
                    drv.cleanup_work += len(drv.ref) - len(drv.unlinked)
                    if exit_mode == "raise":
                        inner = BodyError("body")
                        raise inner
                    if exit_mode == "raise_base":
                        inner = BodyBaseError("body")
                        raise inner
                    if exit_mode == "escape":
                        try:
                            pool.remove(drv.gone[-1])
                        except BaseException as e:   # noqa
                            inner = e
                            raise
                    body_done = True
                finally:
                    drv.stop_children()
        except (BodyError, BodyBaseError) as e:
            outer = e
        except HarnessTimeout:
            raise
        except BaseException as e:   # noqa -- whatever left the with statement
            outer = e
        # ---- after the context
        col.evals += 1
        if outer is not inner:
            if inner is None:
                fail(Mismatch("exit-raises", "leaving the context normally raised %s" %
                              type(outer).__name__, {"exit": exit_mode}), "exit")
            elif outer is None:
                fail(Mismatch("exception-swallowed", "the %s raised in the body did not leave the with statement"
                              % type(inner).__name__, {"exit": exit_mode}), "exit")
            else:
                fail(Mismatch("exception-replaced", "the body raised %s, the with statement raised %s" % (
                    type(inner).__name__, type(outer).__name__), {"exit": exit_mode}), "exit")
        try:
            drv.check_disk("leaving the context (%s)" % exit_mode, expect_empty=True)
        except Mismatch as m:
            m.sig_extra = dict(m.sig_extra, exit=("exception" if exit_mode != "normal" else "normal"),
                               after_body_mismatch=bool(failures))
            fail(m, "exit")
        if decoy is not None:
            seen_ = (observe(lambda: list(decoy)), os.path.exists(decoy_path))
            if seen_ != (("ok", [decoy_path]), True):
                fail(Mismatch("other-pool-disturbed", "another TmpPool that owned one file during this case now lists %r, "
                              "its file exists: %r" % (seen_[0], seen_[1]), {"exit": exit_mode}), "exit")
        if exit_mode == "escape":
            col.count("escape:" + (type(inner).__name__ if inner is not None else "no exception"))
        if hasattr(drv, "last_gone"):
            col.count("remove_gone:" + (drv.last_gone[1] if drv.last_gone[0] == "exc" else "returns"))
    finally:
        tempfile.tempdir = old_tempdir
        if decoy is not None:
            try:
                decoy.__exit__(None, None, None)
            except Exception:   # noqa
                pass
            shutil.rmtree(os.path.dirname(decoy_path) if decoy_path else "/nonexistent", ignore_errors=True)
        drv.stop_children()
        drv.pool = None
        pool_obj = pool = None
        shutil.rmtree(d, ignore_errors=True)
    col.cases += 1
    if drv.cleanup_work:
        col.nontrivial += 1
    if multi:
        col.count("child_creates", sum(1 for o in hist if o[0] == "create" and o[1] != "P"))
        col.count("child_creates_after_a_flush_since_fork", drv.stale_creates)
        col.states.add((case["forkmode"], len(drv.ref), tuple(sorted(drv.flushed_since_fork.items()))))
    spec = "TmpPool/multi_proc" if multi else "TmpPool/single"
    for m, op in failures:
        sig = {"spec": spec, "kind": m.kind, "op": op[0] if isinstance(op, tuple) else op}
        sig.update(m.sig_extra)
        what = "%s: %s; history=%s exit=%s%s: %s" % (
            spec, m.kind, [list(o) for o in hist], exit_mode,
            (" children=%s" % case["forkmode"]) if multi else (" d=%s" % case.get("dmode", "given")), m.detail)
        col.violation(case.get("idx", 0), sig, what, {"engine": "seqmc", "case": case, "detail": m.detail,
                                                      "snippet": tmppool_snippet(case)})


def tmppool_snippet(case):
    multi = case["part"] == "mp"
    L = ["import os, tempfile" + (", multiprocessing" if multi else ""),
         "from windpyutils.files import TmpPool", ""]
    if multi:
        L += ["def child(pool, conn):",
              "    while conn.recv() == 'create':",
              "        conn.send(pool.create())", "",
              "def start(pool):",
              "    a, b = multiprocessing.Pipe()",
              "    multiprocessing.get_context('fork').Process(target=child, args=(pool, b), daemon=True).start()",
              "    return a", ""]
    L.append("d = tempfile.mkdtemp()")
    if case.get("dmode") == "default":
        L.append("tempfile.tempdir = d")
        ctor = "TmpPool()"
    else:
        ctor = "TmpPool(d, multi_proc=True)" if multi else "TmpPool(d)"
    L += ["paths = []", "try:", "    with %s as pool:" % ctor]
    ind = "        "
    started = set()
    if multi and case["forkmode"] == "eager":
        L.append(ind + "A = start(pool); B = start(pool)")
        started = {"A", "B"}
    live = []
    n = 0
    gone_last = None
    for op in case["hist"]:
        op = tuple(op)
        if op[0] == "create":
            actor = op[1] if len(op) > 1 else "P"
            if actor == "P":
                L.append(ind + "p%d = pool.create()" % n)
            else:
                if actor not in started:
                    L.append(ind + "%s = start(pool)" % actor)
                    started.add(actor)
                L.append(ind + "%s.send('create'); p%d = %s.recv()" % (actor, n, actor))
            live.append("p%d" % n)
            n += 1
        elif op[0] == "remove":
            gone_last = live.pop(op[1])
            L.append(ind + "pool.remove(%s)" % gone_last)
        elif op[0] == "unlink":
            L.append(ind + "os.remove(%s)" % live[op[1]])
        elif op[0] == "remove_gone":
            L += [ind + "try: pool.remove(%s)" % gone_last, ind + "except ValueError: pass"]
        elif op[0] == "flush":
            L.append(ind + "pool.flush()")
            if live:
                gone_last = live[-1]
            live = []
        L.append(ind + "print(list(pool), os.listdir(d))   # expected: %s" % (
            "[%s]" % ", ".join(live)))
    for c in sorted(started):
        L.append(ind + "%s.send('quit')" % c)
    if case["exit"] == "raise":
        L.append(ind + "raise KeyError('body')")
    elif case["exit"] == "raise_base":
        L.append(ind + "raise KeyboardInterrupt()")
    elif case["exit"] == "escape":
        L.append(ind + "pool.remove(%s)" % gone_last)
    L += ["except BaseException as e:", "    print('left through', repr(e))",
          "print(os.listdir(d))   # expected: []"]
    return "\n".join(L)


# ------------------------------------------------------------------------------------------------
# FilePool
# ------------------------------------------------------------------------------------------------

FP_MODES = ("r", "w", "a", "rb")


def fp_alphabet(subset):
    ops = [("len",), ("iter",), ("values",)]
    ops += [("get", i) for i in subset]
    if len(subset) < 3:
        ops.append(("get_absent", "other"))     # an existing file that was not given
    ops.append(("get_absent", "none"))          # a path that does not exist
    return ops


def fp_cases(k):
    cases = []
    for bits in range(8):
        subset = tuple(i for i in range(3) if bits >> i & 1)
        alpha = fp_alphabet(subset)
        for mode in FP_MODES:
            for container in ("list", "iterator"):
                for n in range(k + 1):
                    for ops in itertools.product(alpha, repeat=n):
                        for ex in ("normal", "raise", "raise_base"):
                            cases.append({"part": "fp", "subset": subset, "mode": mode, "container": container,
                                          "ops": ops, "exit": ex})
    return cases


def fp_write_files(workdir):
    paths = [os.path.join(workdir, "file_%d.txt" % i) for i in range(3)]
    for i, p in enumerate(paths):
        with open(p, "w") as f:
            f.write("file %d\n" % i)
    return paths


def run_filepool_case(col, workdir, case):
    paths = fp_write_files(workdir)
    subset = tuple(case["subset"])
    mode = case["mode"]
    given = [paths[i] for i in subset]
    handed = []
    failures = []
    inner = outer = None
    fd0 = nfds()
    fp = FilePool(list(given) if case["container"] == "list" else iter(given), mode)

    def full(pool, after):
        r = observe(len, pool)
        if r != ("ok", len(given)):
            raise Mismatch("keys-mismatch", "after %s: len(pool) -> %r, %d paths given" % (after, r, len(given)))
        r = observe(list, pool)
        if r[0] != "ok" or sorted(r[1]) != sorted(given):
            raise Mismatch("keys-mismatch", "after %s: list(pool) -> %r, given %r" % (
                after, r, [os.path.basename(p) for p in given]))
        for p in given:
            handle(pool, p, after)

    def handle(pool, p, after):
        r = observe(pool.__getitem__, p)
        if r[0] != "ok":
            raise Mismatch("no-handle", "after %s: pool[given path] -> %r" % (after, r))
        h = r[1]
        handed.append(h)
        if getattr(h, "closed", None) is not False:
            raise Mismatch("handle-not-open", "after %s: pool[given path].closed is %r inside the context" % (
                after, getattr(h, "closed", None)))
        if getattr(h, "mode", None) != mode:
            raise Mismatch("handle-mode", "after %s: handle.mode == %r, requested %r" % (
                after, getattr(h, "mode", None), mode))
        if getattr(h, "name", None) != p:
            raise Mismatch("handle-other-file", "after %s: handle.name is not the path it is mapped from" % after)
        if h.readable() != (mode in ("r", "rb")) or h.writable() != (mode in ("w", "a")):
            raise Mismatch("handle-mode", "after %s: readable/writable do not fit mode %r" % (after, mode))

    cur = None
    try:
        with fp as pool:
            try:
                full(pool, "entering the context")
                col.evals += 1
                for op in case["ops"]:
                    op = tuple(op)
                    cur = op
                    if op[0] == "len":
                        r = observe(len, pool)
                        if r != ("ok", len(given)):
                            raise Mismatch("keys-mismatch", "len(pool) -> %r, %d given" % (r, len(given)))
                    elif op[0] == "iter":
                        r = observe(lambda: [x for x in pool])
                        if r[0] != "ok" or sorted(r[1]) != sorted(given):
                            raise Mismatch("keys-mismatch", "iteration -> %r" % (r,))
                    elif op[0] == "values":
                        r = observe(lambda: list(pool.values()))
                        if r[0] != "ok" or len(r[1]) != len(given):
                            raise Mismatch("keys-mismatch", "values() -> %r" % (r,))
                        handed.extend(r[1])
                        if any(getattr(h, "closed", None) is not False for h in r[1]):
                            raise Mismatch("handle-not-open", "values() holds a closed handle inside the context")
                    elif op[0] == "get":
                        handle(pool, paths[op[1]], "getitem")
                    elif op[0] == "get_absent":
                        if op[1] == "other":
                            q = [paths[i] for i in range(3) if i not in subset][0]
                        else:
                            q = os.path.join(workdir, "no_such_file.txt")
                        r = observe(pool.__getitem__, q)
                        if r != ("exc", "KeyError"):
                            raise Mismatch("absent-key", "pool[path that was not given] -> %r, expected KeyError"
                                           % (r,), {"absent": op[1]})
                    else:
                        raise AssertionError(op)
                    col.steps += 1
                    full(pool, op[0])
                    col.evals += 1
                cur = None
            except Mismatch as m:
                failures.append((m, cur))
            if case["exit"] == "raise":
                inner = BodyError("body")
                raise inner
            if case["exit"] == "raise_base":
                inner = BodyBaseError("body")
                raise inner
    except BaseException as e:   # noqa
        outer = e
    col.evals += 1
    ex = "exception" if case["exit"] != "normal" else "normal"
    if outer is not inner:
        if inner is None:
            failures.append((Mismatch("exit-raises", "leaving the context normally raised %s" %
                                      type(outer).__name__), "exit"))
        elif outer is None:
            failures.append((Mismatch("exception-swallowed", "the %s raised in the body did not leave the with "
                                      "statement" % type(inner).__name__), "exit"))
        else:
            failures.append((Mismatch("exception-replaced", "body raised %s, with statement raised %s" % (
                type(inner).__name__, type(outer).__name__)), "exit"))
    still_open = sum(1 for h in handed if not getattr(h, "closed", False))
    if still_open:
        failures.append((Mismatch("handle-left-open", "%d of the %d handles handed out inside the context are still "
                                  "open after leaving it (%s)" % (still_open, len(handed), case["exit"]),
                                  {"exit": ex}), "exit"))
    fd1 = nfds()
    if fd1 != fd0 and not still_open:
        failures.append((Mismatch("fd-leak", "%d file descriptors open before the block, %d after leaving it (%s)"
                                  % (fd0, fd1, case["exit"]), {"exit": ex}), "exit"))
    col.count("file_handles_is_None_after_exit" if getattr(fp, "file_handles", "?") is None
              else "file_handles_not_None_after_exit")
    for h in handed:
        try:
            h.close()
        except Exception:   # noqa
            pass
    col.cases += 1
    if given:
        col.nontrivial += 1
    col.states.add(("fp", subset, mode, case["container"]))
    for m, op in failures:
        sig = {"spec": "FilePool", "kind": m.kind, "op": op[0] if isinstance(op, tuple) else op}
        sig.update(m.sig_extra)
        what = "FilePool: %s; files=%s mode=%r given as %s, body=%s exit=%s: %s" % (
            m.kind, list(subset), mode, case["container"], [list(o) for o in case["ops"]], case["exit"], m.detail)
        col.violation(case.get("idx", 0), sig, what, {"engine": "seqmc", "case": case, "detail": m.detail,
                                                      "snippet": filepool_snippet(case)})


def filepool_snippet(case):
    L = ["import os, tempfile", "from windpyutils.files import FilePool", "",
         "d = tempfile.mkdtemp()", "paths = [os.path.join(d, 'file_%d.txt' % i) for i in range(3)]",
         "for p in paths: open(p, 'w').close()",
         "given = [paths[i] for i in %r]" % (list(case["subset"]),), "handles = []", "try:",
         "    with FilePool(%s, %r) as pool:" % ("given" if case["container"] == "list" else "iter(given)",
                                                 case["mode"]),
         "        handles += [pool[p] for p in given]"]
    for op in case["ops"]:
        op = tuple(op)
        if op[0] == "len":
            L.append("        print(len(pool))")
        elif op[0] == "iter":
            L.append("        print(list(pool))")
        elif op[0] == "values":
            L.append("        handles += list(pool.values())")
        elif op[0] == "get":
            L.append("        handles.append(pool[paths[%d]])" % op[1])
        else:
            L += ["        try: pool['/no/such/key']", "        except KeyError: pass"]
    if case["exit"] != "normal":
        L.append("        raise %s" % ("KeyError('body')" if case["exit"] == "raise" else "KeyboardInterrupt()"))
    L += ["except BaseException as e:", "    print('left through', repr(e))",
          "print([h.closed for h in handles])   # expected: all True"]
    return "\n".join(L)


def failed_enter_observations(workdir):
    """open() failing midway: observed and reported, not judged (see module docstring)."""
    obs = {}
    n = 0
    for mode in FP_MODES:
        for bad in range(3):
            for via in ("with", "open"):
                paths = fp_write_files(workdir)
                given = list(paths)
                given[bad] = os.path.join(workdir, "no_such_dir", "x.txt")
                fd0 = nfds()
                fp = FilePool(given, mode)
                entered = False
                exc = None
                try:
                    if via == "with":
                        with fp:
                            entered = True
                    else:
                        fp.open()
                        entered = True
                except Exception as e:   # noqa
                    exc = e
                fd_alive = nfds() - fd0       # while the exception (and its traceback) is alive
                name = type(exc).__name__ if exc is not None else "no exception"
                exc = None
                gc.collect()
                fd_after = nfds() - fd0
                key = "unopenable path at position %d (%d handles opened before it): %s leaves, body %s, extra open " \
                      "fds right after: %d, after dropping the exception + gc: %d, file_handles %s" % (
                          bad, bad, name, "entered" if entered else "not entered", fd_alive,
                          fd_after, "is None" if fp.file_handles is None else "is not None")
                obs[key] = obs.get(key, 0) + 1
                if fp.file_handles:
                    for h in fp.file_handles.values():
                        h.close()
                n += 1
    return n, obs


# ------------------------------------------------------------------------------------------------
# fan-out
# ------------------------------------------------------------------------------------------------

_CASES = []
_BASE = None


def _pmap_worker(task):
    idx, ntasks = task
    workdir = os.path.join(_BASE, "w%d" % idx)
    os.makedirs(workdir)
    col = Collector()
    try:
        for case in _CASES[idx::ntasks]:
            if case["part"] == "fp":
                run_filepool_case(col, workdir, case)
            else:
                run_tmppool_case(col, workdir, case)
                col.states.add(case["state"])
    finally:
        shutil.rmtree(workdir, ignore_errors=True)
    return col.dump()


def pmap_cases(cases, base):
    global _CASES, _BASE
    _CASES = cases
    _BASE = base
    ntasks = max(1, min(len(cases), par.NPROC * 4))
    return par.pmap(_pmap_worker, [(i, ntasks) for i in range(ntasks)])


def _shard_main(k, nshards, cases, base):
    """runs in an os.fork()ed, setsid()ed process: the real-Manager histories of shard k"""
    os.setsid()
    log = os.open(os.path.join(base, "mp-shard-%d.log" % k), os.O_WRONLY | os.O_CREAT | os.O_TRUNC, 0o600)
    devnull = os.open(os.devnull, os.O_RDONLY)
    os.dup2(devnull, 0)
    os.dup2(log, 1)
    os.dup2(log, 2)
    sys.stdout = os.fdopen(1, "w", buffering=1, closefd=False)
    sys.stderr = os.fdopen(2, "w", buffering=1, closefd=False)
    workdir = os.path.join(base, "mp%d" % k)
    os.makedirs(workdir)
    col = Collector()
    me = os.getpid()
    for case in cases[k::nshards]:
        faulthandler.cancel_dump_traceback_later()
        faulthandler.dump_traceback_later(CASE_WATCHDOG, exit=True, file=sys.stderr)
        print("case", case, flush=True)
        try:
            run_tmppool_case(col, workdir, case)
        except HarnessTimeout as e:
            col.harness.append("multi_proc case %r: %s (rest of shard %d not executed)" % (case, e, k))
            break
        # the statement speaks about files only; a manager process that outlives the pool is counted
        gc.collect()
        multiprocessing.active_children()
        left = live_children(me)
        if left:
            time.sleep(0.2)
            multiprocessing.active_children()
            left = live_children(me)
        if left:
            col.count("cases_with_process_alive_after_context")
            for p in left:
                try:
                    os.kill(p, signal.SIGKILL)
                    os.waitpid(p, 0)
                except (ProcessLookupError, ChildProcessError):
                    pass
    faulthandler.cancel_dump_traceback_later()
    shutil.rmtree(workdir, ignore_errors=True)
    out = os.path.join(base, "mp-shard-%d.out" % k)
    with open(out + ".tmp", "wb") as f:
        pickle.dump(col.dump(), f)
    os.rename(out + ".tmp", out)


def run_mp_shards(report, cases, base, deadline_s):
    nshards = max(1, min(par.NPROC, len(cases)))
    pids = {}
    sys.stdout.flush()
    sys.stderr.flush()
    for k in range(nshards):
        pid = os.fork()
        if pid == 0:
            code = 3
            try:
                _shard_main(k, nshards, cases, base)
                code = 0
            except BaseException:   # noqa
                try:
                    traceback.print_exc()
                except Exception:   # noqa
                    pass
            finally:
                os._exit(code)
        pids[k] = pid
    t_end = time.time() + deadline_s
    status = {}
    while len(status) < nshards and time.time() < t_end:
        for k, pid in pids.items():
            if k not in status:
                r, st = os.waitpid(pid, os.WNOHANG)
                if r == pid:
                    status[k] = st
        time.sleep(0.02)
    survivors = 0
    dumps = []
    for k, pid in pids.items():
        if k not in status:
            report.harness_error("multi_proc shard %d did not finish within %d s (killed); log tail: %s" % (
                k, deadline_s, _tail(os.path.join(base, "mp-shard-%d.log" % k))))
        # final scan of the shard's session / process group: anything still alive is a leaked process
        members = [p for p in group_members(pid) if not (k not in status and p == pid)]
        if k in status and members:
            survivors += len(members)
        try:
            os.killpg(pid, signal.SIGKILL)
        except (ProcessLookupError, PermissionError):
            pass
        if k not in status:
            try:
                os.waitpid(pid, 0)
            except ChildProcessError:
                pass
            continue
        out = os.path.join(base, "mp-shard-%d.out" % k)
        if status[k] != 0 or not os.path.exists(out):
            report.harness_error("multi_proc shard %d failed (wait status %r); log tail: %s" % (
                k, status[k], _tail(os.path.join(base, "mp-shard-%d.log" % k))))
            continue
        with open(out, "rb") as f:
            dumps.append(pickle.load(f))
    # the groups must be empty now
    for k, pid in pids.items():
        for _ in range(50):
            if not group_members(pid):
                break
            time.sleep(0.02)
        else:
            report.harness_error("processes of shard %d survived SIGKILL of their group: %r" % (k, group_members(pid)))
    return dumps, survivors, nshards


def _tail(path, n=1500):
    try:
        with open(path, "rb") as f:
            return f.read()[-n:].decode("utf-8", "replace")
    except OSError:
        return "<no log>"


# ------------------------------------------------------------------------------------------------
# entry points
# ------------------------------------------------------------------------------------------------

def build_cases(tier):
    sp_depth = 5 if tier == "quick" else 8
    dflt_depth = 3 if tier == "quick" else 6
    mp_depth = 3 if tier == "quick" else 4
    fp_k = 2 if tier == "quick" else 3
    sp = []
    for hist, st in sp_histories(sp_depth):
        for ex in sp_exits(st):
            sp.append({"part": "sp", "hist": hist, "exit": ex, "dmode": "given", "state": st})
    for hist, st in sp_histories(dflt_depth):
        for ex in sp_exits(st):
            sp.append({"part": "sp", "hist": hist, "exit": ex, "dmode": "default", "state": st})
    mp = []
    for hist in mp_histories(mp_depth):
        for forkmode in ("eager", "lazy"):
            if forkmode == "lazy" and not any(o[0] == "create" and o[1] != "P" for o in hist):
                continue        # no child ever forked: identical to a single-actor history, run once (eager)
            for ex in ("normal", "raise"):
                mp.append({"part": "mp", "hist": hist, "exit": ex, "forkmode": forkmode})
    fp = fp_cases(fp_k)
    fp.sort(key=lambda c: (len(c["ops"]), len(c["subset"])))      # stable: simplest cases first
    for lst in (sp, mp, fp):
        for i, c in enumerate(lst):
            c["idx"] = i
    return sp, mp, fp, {"sp_depth": sp_depth, "default_dir_depth": dflt_depth, "mp_depth": mp_depth, "fp_ops": fp_k}


def run(report, tier):
    base = "/dev/shm/verif-%d-c20" % os.getpid()
    shutil.rmtree(base, ignore_errors=True)
    os.makedirs(base)
    report.rule("one execution = one history run inside a real `with` block on a fresh pool and a fresh scratch "
                "directory; one evaluation = the full oracle (listing via len/getitem/iter == reference, "
                "os.listdir == reference, handles open / closed, fd count) after one step or after leaving the block; "
                "non-trivial = execution in which flush()/__exit__ had at least one existing file to delete "
                "(TmpPool) or at least one handle to close (FilePool)")
    try:
        sp, mp, fp, bounds = build_cases(tier)
        # 1. real-Manager histories first (forked from a process without pool threads)
        t0 = time.time()
        dumps, survivors, nshards = run_mp_shards(report, mp, base, 240 if tier == "quick" else 1500)
        tot = merge_dumps(report, dumps)
        report.part("TmpPool/multi_proc", states=len(tot["states"]), transitions=tot["steps"],
                    traces_validated_against_impl=tot["cases"], evaluations=tot["evals"],
                    exhaustive=(tot["cases"] == len(mp)), depth_bound=bounds["mp_depth"], cases_planned=len(mp),
                    shards=nshards, leaked_processes_found_by_final_scan=survivors,
                    observations=tot["obs"], wall_s=round(time.time() - t0, 1))
        report.nontrivial_n(tot["nontrivial"])
        if tot["cases"] != len(mp) and not report.harness_errors:
            report.harness_error("multi_proc: %d of %d cases executed" % (tot["cases"], len(mp)))
        for c in mp[:2] + mp[len(mp) // 2:len(mp) // 2 + 1]:
            report.sample(c)
        # 2. single-process TmpPool
        t0 = time.time()
        tot = merge_dumps(report, pmap_cases(sp, base))
        report.part("TmpPool/single", states=len(tot["states"]), transitions=tot["steps"],
                    traces_validated_against_impl=tot["cases"], evaluations=tot["evals"],
                    exhaustive=(tot["cases"] == len(sp)), depth_bound=bounds["sp_depth"],
                    depth_bound_default_dir=bounds["default_dir_depth"], cases_planned=len(sp),
                    observations=tot["obs"], wall_s=round(time.time() - t0, 1))
        report.nontrivial_n(tot["nontrivial"])
        for c in sp[5:6] + sp[len(sp) // 2:len(sp) // 2 + 1]:
            report.sample({k: v for k, v in c.items() if k != "state"})
        # 3. FilePool
        t0 = time.time()
        tot = merge_dumps(report, pmap_cases(fp, base))
        report.part("FilePool", states=len(tot["states"]), transitions=tot["steps"],
                    traces_validated_against_impl=tot["cases"], evaluations=tot["evals"],
                    exhaustive=(tot["cases"] == len(fp)), ops_bound=bounds["fp_ops"], cases_planned=len(fp),
                    observations=tot["obs"], wall_s=round(time.time() - t0, 1))
        report.nontrivial_n(tot["nontrivial"])
        report.sample(fp[len(fp) // 3])
        # 4. failed __enter__: observed only
        wd = os.path.join(base, "fe")
        os.makedirs(wd)
        n, obs = failed_enter_observations(wd)
        report.part("FilePool/failed-enter (observed, not judged)", cases=n, judged=False, observations=obs)
    finally:
        shutil.rmtree(base, ignore_errors=True)
    # 5. a child creating concurrently with the parent's flush / create / exit: all schedules (engine A)
    from checks import c20_conc
    c20_conc.run_part(report, tier)
    c20_conc.fork_entered_part(report, tier)
    report.assume("in the history parts TmpPool children run one create() to completion before the next operation starts; "
                  "create concurrent with flush()/exit is explored separately over the virtual manager list (engine A)")
    report.assume("remove() of a path that is not listed is not defined by the statement: any outcome accepted, "
                  "the listing/disk oracle is applied afterwards")
    report.assume("a failed FilePool.__enter__ (open() raising midway) is not 'leaving the context': observed, "
                  "reported in the part record, not judged")


def replay(rec):
    """re-executes the recorded case against the current tree; exit 1 if it still fails"""
    print(rec["what"])
    rp = rec["replay"]
    if rp.get("engine") == "vsched":
        from checks import c20_conc
        from mc import vsched
        from mc.par import pin_self
        c = rp["config"]
        cfg = c20_conc.Cfg(c["name"], c["parent_ops"], c["child_ops"], c["children"])
        pin_self()
        r = vsched.Scheduler(rp["choices"], None, None, {(tuple(a), b) for a, b in rp["racy"]}, record_trace=True).run(
            c20_conc.make_driver(cfg))
        print("\n".join(r.trace))
        bad = c20_conc.judge(cfg, r)
        for v in bad:
            print("VIOLATION", v[1], v[2])
        return 1 if bad else 0
    print(rp.get("snippet"))
    case = rp.get("case")
    if not case:
        return 0
    base = "/dev/shm/verif-%d-c20" % os.getpid()
    shutil.rmtree(base, ignore_errors=True)
    os.makedirs(base)
    try:
        case = dict(case)
        if "hist" in case:
            case["hist"] = tuple(tuple(o) for o in case["hist"])
        if "ops" in case:
            case["ops"] = tuple(tuple(o) for o in case["ops"])
            case["subset"] = tuple(case["subset"])
        if "state" in case:
            case["state"] = repr(case["state"])
        rep = Report(PROP)
        if case["part"] == "mp":
            dumps, survivors, _ = run_mp_shards(rep, [case], base, 120)
        else:
            dumps = pmap_cases([case], base)
        n = 0
        for d in dumps:
            for key, v in d["viol"].items():
                print("REPRODUCED: %s" % v[1])
                n += 1
            for e in d["harness"]:
                print("HARNESS-ERROR: " + e)
        for e in rep.harness_errors:
            print("HARNESS-ERROR: " + e)
        if not n:
            print("not reproduced on this tree")
        return 1 if n else 0
    finally:
        shutil.rmtree(base, ignore_errors=True)
