"""C17 -- sorted_combinations is complete and key-ordered; min_combinations_in_interval_iter_sorted is exact.

Every score vector in {0..S}^n (n up to the bound; zeros and ties included) is used
  * as the element sequence itself (list and tuple: elements with repeats) and as a score table for the
    elements range(n) (distinct elements, so index order is observable), with the four keys sum, max,
    length and (sum, length) -- all non-decreasing when an element is appended -- and yield_key both ways;
  * as `scores` of min_combinations_in_interval_iter_sorted over distinct element labels, for every
    interval [i_start, i_end) with 0 <= i_start <= i_end <= total+1.
Reference: itertools.combinations over the positions (all 2^n - 1 non-empty subsets), brute force.
"""
import itertools

from mc.par import pmap
from mc.report import Report
from mc.seqmc import Mismatch, StepBudget, observe
from windpyutils.generic import min_combinations_in_interval_iter_sorted, sorted_combinations

PROP = "C17"

# (max score, max n) grids
BOUNDS = {
    "quick": [(3, 4)],
    "thorough": [(3, 5), (2, 6)],
}
STEP_LIMIT = 20000        # lines of library code per call of the interval search (legitimate cost < 2500 at n=6)
LABELS = "abcdefgh"

KEYS = {
    "sum": lambda c: sum(c),
    "max": lambda c: max(c),
    "len": lambda c: len(c),
    "sum_len": lambda c: (sum(c), len(c)),
}


def positions(n):
    """all non-empty index-ordered position tuples, brute force"""
    res = []
    for r in range(1, n + 1):
        res.extend(itertools.combinations(range(n), r))
    return res


def fail(kind, fn, detail, **extra):
    return Mismatch(kind, detail, dict(extra, op=fn))


class El:
    """an element that is nothing but itself: no ordering, no hash, no value equality (like a dict or an array)"""
    __slots__ = ("label",)
    __hash__ = None

    def __init__(self, label):
        self.label = label

    def __repr__(self):
        return "El(%r)" % self.label


# ------------------------------------------------------------------------------------------------
def check_sorted(vec, mode, key_name, yield_key):
    """mode: 'list' / 'tuple' -- the score vector is the element sequence; 'range' -- elements are range(n) and
    the key looks the scores up.  Returns the number of ties among keys (for the non-triviality count)."""
    n = len(vec)
    base = KEYS[key_name]
    if mode == "range":
        elements = range(n)

        def key(c):
            return base(tuple(vec[i] for i in c))
    elif mode == "opaque":
        # elements that can neither be ordered nor hashed (position as label); the key looks the scores up
        elements = [El(i) for i in range(n)]

        def key(c):
            return base(tuple(vec[e.label if isinstance(e, El) else e] for e in c))
    else:
        elements = list(vec) if mode == "list" else tuple(vec)
        key = base
    pos = positions(n)
    total = len(pos)
    r = observe(lambda: list(itertools.islice(sorted_combinations(elements, key, yield_key), total + 1)))
    if r[0] != "ok":
        raise fail("raises", "sorted_combinations", "-> %r" % (r,))
    got = r[1]
    if len(got) > total:
        raise fail("yields-too-many", "sorted_combinations", "yields more than the %d non-empty combinations of %d elements "
                   "(first %r)" % (total, n, got[:6]))
    if yield_key:
        for item in got:
            if not (isinstance(item, tuple) and len(item) == 2 and isinstance(item[0], tuple)):
                raise fail("item-shape", "sorted_combinations", "yield_key=True yielded %r, expected (combination, key)" % (item,))
        combs = [item[0] for item in got]
        for c, k in got:
            if not c:
                raise fail("empty-combination", "sorted_combinations", "yielded the empty combination")
            if k != key(c):
                raise fail("key-alongside-wrong", "sorted_combinations", "combination %r yielded with key %r, key(c) is %r" % (c, k, key(c)))
    else:
        combs = got
        for c in combs:
            if not isinstance(c, tuple):
                raise fail("item-shape", "sorted_combinations", "yielded %r, expected a tuple" % (c,))
            if not c:
                raise fail("empty-combination", "sorted_combinations", "yielded the empty combination")
    if mode == "opaque":
        for c in combs:
            if not all(isinstance(e, El) for e in c):
                raise fail("not-a-combination", "sorted_combinations", "combination %r does not consist of the given elements" % (c,))
        combs = [tuple(e.label for e in c) for c in combs]
        elements = range(n)
    exp = sorted(tuple(elements[i] for i in p) for p in pos)
    if sorted(combs) != exp:
        gs, es = sorted(combs), exp
        missing = multiset_minus(es, gs)
        extra = multiset_minus(gs, es)
        if missing and not extra:
            kind = "combination-missing"
        elif extra and not missing:
            kind = "combination-extra"
        elif any(c in es for c in extra):
            kind = "combination-repeated-and-missing"
        else:
            kind = "not-a-combination"
        raise fail(kind, "sorted_combinations", "missing %r, not expected %r (as multisets; %d yielded, %d expected)" % (
            missing[:4], extra[:4], len(gs), len(es)))
    if mode in ("range", "opaque"):
        for c in combs:
            if any(a >= b for a, b in zip(c, c[1:])):
                raise fail("not-index-ordered", "sorted_combinations", "combination %r is not in index order" % (c,))
    keys = [key(c) for c in combs]
    ties = 0
    for a, b, ca, cb in zip(keys, keys[1:], combs, combs[1:]):
        if b < a:
            raise fail("key-order", "sorted_combinations", "%r (key %r) is yielded before %r (key %r)" % (ca, a, cb, b))
        if a == b:
            ties += 1
    return ties


def multiset_minus(a, b):
    b = list(b)
    res = []
    for x in a:
        if x in b:
            b.remove(x)
        else:
            res.append(x)
    return res


def sorted_snippet(vec, mode, key_name, yield_key):
    keysrc = {"sum": "sum(%s)", "max": "max(%s)", "len": "len(%s)", "sum_len": "(sum(%s), len(%s))"}[key_name]
    if mode == "opaque":
        inner = "[scores[e['i']] for e in c]"
        el = "[{'i': i} for i in range(%d)]" % len(vec)
        pre = "scores = %r\n" % (list(vec),)
    elif mode == "range":
        inner = "[scores[i] for i in c]"
        el = "range(%d)" % len(vec)
        pre = "scores = %r\n" % (list(vec),)
    else:
        inner = "c"
        el = repr(list(vec) if mode == "list" else tuple(vec))
        pre = ""
    return ("from windpyutils.generic import sorted_combinations\n%s"
            "print(list(sorted_combinations(%s, lambda c: %s, yield_key=%r)))" % (
                pre, el, keysrc.replace("%s", inner), yield_key))


# ------------------------------------------------------------------------------------------------
def check_intervals(vec, rep, seen, st, opaque=False):
    n = len(vec)
    elements = [El(x) for x in LABELS[:n]] if opaque else list(LABELS[:n])
    scores = list(vec)
    by_sum = {}
    for p in positions(n):
        by_sum.setdefault(sum(vec[i] for i in p), []).append(tuple(LABELS[i] for i in p))
    sums = sorted(by_sum)
    total = sum(vec)
    budget = StepBudget(STEP_LIMIT)
    if total <= 60:
        points = list(range(total + 2))
    else:       # large scores: every achievable sum and its neighbours, 0 and total+1
        points = sorted({0, total + 1} | {x for s_ in sums for x in (s_ - 1, s_, s_ + 1) if 0 <= x <= total + 1})
    for a_, i_start in enumerate(points):
        for i_end in points[a_:]:
            inside = [s for s in sums if i_start <= s < i_end]
            exp = sorted((c, inside[0]) for c in by_sum[inside[0]]) if inside else []
            st["intervals"] += 1
            if inside and (inside[0] > i_start or len(exp) > 1):
                st["nontrivial"] += 1
            r = observe(min_combinations_in_interval_iter_sorted, elements, scores, i_start, i_end, budget=budget)
            try:
                if r[0] == "diverges":
                    raise fail("diverges", "min_combinations_in_interval_iter_sorted", "more than %d lines of library code" % STEP_LIMIT)
                if r[0] != "ok":
                    raise fail("raises", "min_combinations_in_interval_iter_sorted", "-> %r" % (r,))
                got = r[1]
                if not isinstance(got, list):
                    raise fail("result-shape", "min_combinations_in_interval_iter_sorted", "returned %r, expected a list" % (got,))
                norm = []
                for item in got:
                    if not (isinstance(item, tuple) and len(item) == 2 and isinstance(item[0], (list, tuple))):
                        raise fail("result-shape", "min_combinations_in_interval_iter_sorted", "item %r, expected (combination, sum)" % (item,))
                    # the statement does not fix the order of elements inside a combination nor of the result list
                    comb = item[0]
                    if opaque:
                        if not all(isinstance(e, El) for e in comb):
                            raise fail("result-shape", "min_combinations_in_interval_iter_sorted", "combination %r does not consist of the given elements" % (comb,))
                        comb = [e.label for e in comb]
                    norm.append((tuple(sorted(comb)), item[1]))
                norm.sort()
                if norm != exp:
                    if not exp:
                        kind = "result-for-empty-interval"
                    elif not norm:
                        kind = "nothing-found"
                    elif any(s != inside[0] for _, s in norm):
                        kind = "sum-not-the-minimum-in-interval"
                    elif all(x in exp for x in norm) and len(set(norm)) == len(norm):
                        kind = "tied-combinations-missing"
                    else:
                        kind = "wrong-combinations"
                    raise fail(kind, "min_combinations_in_interval_iter_sorted", "returned %r, expected %r" % (got, exp))
            except Mismatch as m:
                case = {"part": "interval", "scores": scores, "i_start": i_start, "i_end": i_end, "opaque_elements": opaque}
                violate(rep, seen, m, case, 100 * n + total + (i_end - i_start),
                        lambda: "from windpyutils.generic import min_combinations_in_interval_iter_sorted\n"
                                "print(min_combinations_in_interval_iter_sorted(%r, %r, %d, %d))" % (elements, scores, i_start, i_end))


# ------------------------------------------------------------------------------------------------
def violate(rep, seen, m, case, size, snippet):
    """per signature the smallest case seen by this worker is the one reported"""
    sig = {"spec": m.sig_extra["op"], "kind": m.kind}
    sig.update(m.sig_extra)
    key = repr(sorted(sig.items()))
    if key in seen and seen[key][0] <= size:
        seen[key][3] += 1
        return
    cnt = seen[key][3] + 1 if key in seen else 1
    seen[key] = [size, sig, ("%s: %s: %s [case %r]" % (sig["spec"], m.kind, m.detail, case),
                             {"engine": "inputs", "case": case, "size": size, "detail": m.detail, "snippet": snippet()}), cnt]


BIGVALS = [5, 10 ** 12, 10 ** 12 + 1]


def worker(task):
    smax, n, head = task
    rep = Report(PROP, collect_only=True)
    seen = {}
    st = {"vectors": 0, "calls": 0, "combinations": 0, "intervals": 0, "nontrivial": 0, "tie_vectors": 0}
    values = BIGVALS if smax == "big" else range(smax + 1)
    for tail in itertools.product(values, repeat=n - len(head)):
        vec = tuple(head) + tail
        st["vectors"] += 1
        ties_any = False
        # (no unorderable elements here: sorted_combinations breaks ties between equal keys and lengths by comparing
        # the combinations themselves, so orderable elements are part of its contract)
        for mode in ("list", "tuple", "range"):
            for key_name in KEYS:
                for yield_key in (False, True):
                    st["calls"] += 1
                    st["combinations"] += 2 ** n - 1
                    try:
                        if check_sorted(vec, mode, key_name, yield_key):
                            ties_any = True
                            st["nontrivial"] += 1
                    except Mismatch as m:
                        case = {"part": "sorted", "vector": list(vec), "elements": mode, "key": key_name, "yield_key": yield_key}
                        violate(rep, seen, m, case, 100 * n + sum(vec),
                                lambda: sorted_snippet(vec, mode, key_name, yield_key))
        if ties_any:
            st["tie_vectors"] += 1
        check_intervals(vec, rep, seen, st)
        if len(set(vec)) < len(vec):
            # tied scores: the same intervals over elements that cannot be ordered or hashed
            check_intervals(vec, rep, seen, st, opaque=True)
        if (st["vectors"] % 61 == 30 or st["vectors"] == 2) and n >= 2:
            rep.sample({"scores": list(vec), "keys": list(KEYS), "elements": ["list", "tuple", "range(n)+lookup"],
                        "intervals": "all 0<=i_start<=i_end<=%d" % (sum(vec) + 1)})
    for size, sig, (what, replay), cnt in seen.values():
        rep.violation(sig, what, replay)
        for _ in range(cnt - 1):
            rep.violation(sig, "", {})
    return rep.dump(), st


def run(report, tier):
    report.rule("one case = one call: sorted_combinations(elements, key, yield_key) consumed completely (through islice(2^n)) "
                "and compared as a multiset with itertools.combinations over positions, key order and yielded keys checked; "
                "or min_combinations_in_interval_iter_sorted for one interval against the brute-force minimum. "
                "evaluations = combinations compared + intervals; non-trivial = calls whose output contains equal adjacent "
                "keys (ties) + intervals whose minimum lies strictly inside the interval or is reached by several combinations")
    tasks = []
    grids = []
    for smax, nmax in BOUNDS[tier]:
        for n in range(nmax + 1):
            if any(s2 >= smax and n <= n2 for s2, n2 in grids):
                continue          # this sub-grid is contained in a grid already scheduled
            for head in itertools.product(range(smax + 1), repeat=min(2, n)):
                tasks.append((smax, n, head))
        grids.append((smax, nmax))
    for n in (1, 2, 3):
        tasks.append(("big", n, ()))        # large integer scores: sums that differ by 1 in 10**12
    res = pmap(worker, tasks)
    best = {}
    for d, _ in res:
        for key, (sig, what, replay, cnt) in d["pending"].items():
            if key not in best or replay["size"] < best[key][1]["size"]:
                best[key] = (what, replay)
    samples = [x for d, _ in res for x in d["cov"]["samples"]]
    for d, _ in res:
        for key, v in d["pending"].items():
            v[1], v[2] = best[key]
        d["cov"]["samples"] = []
        report.merge(d)
    step = max(1, len(samples) // 4)
    for x in samples[step // 2::step][:4]:
        report.sample(x)
    tot = {k: sum(st[k] for _, st in res) for k in res[0][1]}
    report.part("sorted_combinations", states=tot["vectors"], transitions=tot["calls"], traces_validated_against_impl=tot["calls"],
                evaluations=tot["combinations"], vectors_with_ties=tot["tie_vectors"], exhaustive=True,
                bound="; ".join("scores {0..%d}^n, n<=%d" % g for g in BOUNDS[tier]),
                per_vector="3 element sequences (list, tuple, range+lookup) x 4 keys x yield_key in (False, True)")
    report.part("min_combinations_in_interval_iter_sorted", transitions=tot["intervals"], traces_validated_against_impl=tot["intervals"],
                evaluations=tot["intervals"], exhaustive=True, step_limit=STEP_LIMIT,
                bound="same vectors; every 0 <= i_start <= i_end <= sum(scores)+1")
    report.nontrivial_n(tot["nontrivial"])
    report.assume("keys are non-decreasing under appending an element (scores are non-negative integers); "
                  "elements are passed as sequences (sorted_combinations slices its input)")


def replay(rec):
    case = rec["replay"]["case"]
    print(rec["what"])
    print("--- snippet ---")
    print(rec["replay"].get("snippet"))
    rep = Report(PROP, collect_only=True)
    seen = {}
    try:
        if case["part"] == "sorted":
            check_sorted(tuple(case["vector"]), case["elements"], case["key"], case["yield_key"])
        else:
            # all intervals of that vector are re-run; the recorded one is among them
            check_intervals(tuple(case["scores"]), rep, seen, {"intervals": 0, "nontrivial": 0}, opaque=case.get("opaque_elements", False))
            if seen:
                m = next(iter(seen.values()))
                print("--- reproduced: %s" % m[2][0])
                return 1
    except Mismatch as m:
        print("--- reproduced: %s: %s" % (m.kind, m.detail))
        return 1
    print("--- not reproduced on this tree")
    return 0
