"""C10 -- SpanSet: construction and operators follow their membership-based definitions, all relations.

Input enumeration (depth-1 exploration of a pure data type) against brute-force evaluation of the
formulas in the docstrings of windpyutils/structures/span_set.py:

  x in S        <=>  any(rel_S(x, y) for y in S)          (rel_S re-implemented here as plain functions)
  construction  ==   fold: keep x iff not (x in set-built-so-far)
  A & B         ==   [x for x in chain(A, B) if x in A and x in B], each span once (exact de-duplication)
  A | B, A - B, A ^ B likewise with or / and-not / xor
  A <= B        <=>  all(x in B for x in A);   A == B <=> A <= B and B <= A;  A < B <=> A <= B and A != B
  A >= B        <=>  B <= A;  A > B <=> B < A;  A != B <=> not A == B
  A.isdisjoint(B) <=> all(x not in A for x in B);  issubset == <=;  issuperset == >=

Space: all spans (s, e), s <= e, over a small universe of points; every span list up to a length (with
repeats, in every order); every list is an operand content (lists with exact repeats are reachable
through force_no_dup_check=True); every ordered pair of contents x all 4x4 relation pairs x 13 operators.
"""
import functools
import itertools
import operator
import time

from mc.par import pmap
from mc.report import Report
from mc.seqmc import observe
from windpyutils.structures import span_set as ss
from windpyutils.structures.span_set import SpanSet


# ---- reference: the four relations as plain functions (x = probe span, y = stored span) ----------------

def rel_exact(x, y):
    return x == y


def rel_part_of(x, y):          # x lies completely inside y
    return y[0] <= x[0] and x[1] <= y[1]


def rel_includes(x, y):         # x includes the whole y
    return x[0] <= y[0] and y[1] <= x[1]


def rel_overlaps(x, y):         # closed intervals share at least a point
    return max(x[0], y[0]) <= min(x[1], y[1])


RELS = [("Exact", rel_exact, "SpanSetExactEqRelation"),
        ("PartOf", rel_part_of, "SpanSetPartOfEqRelation"),
        ("Includes", rel_includes, "SpanSetIncludesEqRelation"),
        ("Overlaps", rel_overlaps, "SpanSetOverlapsEqRelation")]
REL_INDEX = {name: i for i, (name, _f, _c) in enumerate(RELS)}


@functools.lru_cache(maxsize=None)
def mem(x, content, ri):
    """x in S, by definition (memoised brute force; content is a tuple of spans)"""
    rel = RELS[ri][1]
    return any(rel(x, y) for y in content)


def fold(spans, ri):
    """construction: keep a span only if it is not already in the set built so far"""
    kept = []
    rel = RELS[ri][1]
    for x in spans:
        if not any(rel(x, y) for y in kept):
            kept.append(x)
    return tuple(kept)


SET_FORMULAS = [("&", operator.and_, lambda a, b: a and b),
                ("|", operator.or_, lambda a, b: a or b),
                ("-", operator.sub, lambda a, b: a and not b),
                ("^", operator.xor, lambda a, b: a != b)]

BOOL_OPS = [("<=", operator.le), ("<", operator.lt), ("==", operator.eq), ("!=", operator.ne),
            (">=", operator.ge), (">", operator.gt),
            ("isdisjoint", lambda a, b: a.isdisjoint(b)),
            ("issubset", lambda a, b: a.issubset(b)),
            ("issuperset", lambda a, b: a.issuperset(b))]
OP_TEXT = {"isdisjoint": "A.isdisjoint(B)", "issubset": "A.issubset(B)", "issuperset": "A.issuperset(B)"}


def expected_setop(formula, a, ra, b, rb):
    """-> (spans of chain(A, B) satisfying the formula in first-occurrence order, each once; number filtered)"""
    out = []
    n = 0
    for x in itertools.chain(a, b):
        if formula(mem(x, a, ra), mem(x, b, rb)):
            n += 1
            if x not in out:            # tuple equality == exact match
                out.append(x)
    return out, n


def expected_bools(a, ra, b, rb):
    le = all(mem(x, b, rb) for x in a)
    ge = all(mem(x, a, ra) for x in b)
    eq = le and ge
    return {"<=": le, "<": le and not eq, "==": eq, "!=": not eq, ">=": ge, ">": ge and not eq,
            "isdisjoint": all(not mem(x, a, ra) for x in b), "issubset": le, "issuperset": ge}


def naive(a, b):
    """what builtin frozensets of the same spans would answer (only used to *measure* non-triviality)"""
    sa, sb = frozenset(a), frozenset(b)
    return {"&": sa & sb, "|": sa | sb, "-": sa - sb, "^": sa ^ sb,
            "<=": sa <= sb, "<": sa < sb, "==": sa == sb, "!=": sa != sb, ">=": sa >= sb, ">": sa > sb,
            "isdisjoint": sa.isdisjoint(sb), "issubset": sa <= sb, "issuperset": sa >= sb}


# ---- the space -----------------------------------------------------------------------------------------

def spans_of(points):
    return [(s, e) for s in points for e in points if s <= e]


def contents_of(points, maxlen):
    sp = spans_of(points)
    out = []
    for n in range(maxlen + 1):
        out.extend(itertools.product(sp, repeat=n))
    return out


def rel_obj(ri):
    return getattr(ss, RELS[ri][2])()


def build_operand(content, ri):
    """natural construction when the content is what construction would keep, otherwise the documented
    no-duplicate-check form (the only way to obtain a set holding related / repeated spans)"""
    if fold(content, ri) == content:
        return SpanSet(list(content), eq_relation=rel_obj(ri))
    return SpanSet([s for s, _ in content], [e for _, e in content], force_no_dup_check=True,
                   eq_relation=rel_obj(ri))


def operand_src(name, content, ri):
    if fold(content, ri) == content:
        return "%s = SpanSet(%r, eq_relation=%s())" % (name, list(content), RELS[ri][2])
    return "%s = SpanSet(%r, %r, force_no_dup_check=True, eq_relation=%s())" % (
        name, [s for s, _ in content], [e for _, e in content], RELS[ri][2])


def snippet(a, ra, b, rb, op):
    expr = OP_TEXT.get(op, "A %s B" % op)
    if op in "&|-^":
        expr = "list(%s)" % expr
    return "from windpyutils.structures.span_set import *\n%s\n%s\nprint(%s)" % (
        operand_src("A", a, ra), operand_src("B", b, rb), expr)


# ---- one operand pair ----------------------------------------------------------------------------------

def judge_pair(A, a, ra, B, b, rb, emit, stats=None):
    """all 13 operators on one pair; emit(op, kind, text) per disagreement; -> evaluations"""
    nv = naive(a, b) if stats is not None else None
    differs = False
    for op, fn, formula in SET_FORMULAS:
        exp, nfiltered = expected_setop(formula, a, ra, b, rb)
        r = observe(fn, A, B)
        if r[0] != "ok":
            emit(op, "raises", "A %s B -> %r, expected spans %r" % (op, r, exp))
            continue
        res = r[1]
        o = observe(lambda: [tuple(x) for x in res])
        if o[0] != "ok":
            emit(op, "raises", "iterating A %s B -> %r" % (op, o))
            continue
        obs = o[1]
        if set(obs) != set(exp):
            emit(op, "content", "A %s B holds %r, the formula gives %r" % (op, obs, exp))
        elif len(obs) != len(exp):
            emit(op, "each-once", "A %s B holds %r: a span more than once (expected %r)" % (op, obs, exp))
        elif obs != exp:
            emit(op, "order", "A %s B iterates %r, first-occurrence order of chain(A, B) is %r" % (op, obs, exp))
        if stats is not None:
            stats["cells"].add((op, ra, rb, bool(exp)))
            if nfiltered > len(exp):
                stats["dedup_effective"] += 1
            if frozenset(exp) != nv[op]:
                differs = True
            rn = type(getattr(res, "eq_relation", None)).__name__
            stats["result_relation"][rn] = stats["result_relation"].get(rn, 0) + 1
    eb = expected_bools(a, ra, b, rb)
    for op, fn in BOOL_OPS:
        r = observe(fn, A, B)
        if r != ("ok", eb[op]):
            emit(op, "raises" if r[0] != "ok" else "value",
                 "%s -> %r, the definition gives %r" % (OP_TEXT.get(op, "A %s B" % op), r[-1], eb[op]))
        if stats is not None:
            stats["cells"].add((op, ra, rb, eb[op]))
            if eb[op] != nv[op]:
                differs = True
    if stats is not None:
        if differs:
            stats["nontrivial"] += 1
        if eb["<="] != eb[">="]:
            stats["asymmetric"] += 1
    return len(SET_FORMULAS) + len(BOOL_OPS)


def pair_task(arg):
    """all pairs (A, B) with A = contents[ia] (4 relations) x every content B (4 relations)"""
    uname, points, maxlen, ia = arg
    contents = contents_of(points, maxlen)
    r = Report("C10", collect_only=True)
    stats = {"cells": set(), "dedup_effective": 0, "nontrivial": 0, "asymmetric": 0, "result_relation": {},
             "pairs": 0, "evaluations": 0, "unbuildable": 0}
    a = contents[ia]

    def holds(S, content):
        return observe(lambda: [tuple(x) for x in S]) == ("ok", list(content))

    bs = []
    for b in contents:
        for rb in range(len(RELS)):
            o = observe(build_operand, b, rb)
            if o[0] == "ok" and holds(o[1], b):
                bs.append((b, rb, o[1]))
            elif ia == 0:
                stats["unbuildable"] += 1       # the construction part reports it as a violation
    universe = spans_of(points)

    def derived_operand(content, ri):
        """the test-suite's own idiom for getting a set with another relation: query the source set, copy() it and
        re-assign eq_relation (the copy must answer with ITS relation, whatever the source was asked before)"""
        src = build_operand(content, (ri + 1) % len(RELS))
        for x in universe:
            x in src
        t = src.copy()
        t.eq_relation = rel_obj(ri)
        return t

    def tuple_operand(content, ri):
        """starts and ends given as tuples with force_no_dup_check=True (the set may keep the caller's own sequences)"""
        return SpanSet(tuple(s_ for s_, _ in content), tuple(e_ for _, e_ in content), force_no_dup_check=True,
                       eq_relation=rel_obj(ri))

    builders = {"natural": build_operand, "copy+eq_relation": derived_operand, "tuples+force_no_dup_check": tuple_operand}
    for ra, mode in [(ra, mode) for ra in range(len(RELS)) for mode in builders]:
        o = observe(builders[mode], a, ra)
        if o[0] != "ok" or not holds(o[1], a):
            continue
        A = o[1]
        stats["operand_modes"] = stats.get("operand_modes", 0) + 1
        for b, rb, B in bs:
            def emit(op, kind, text, a=a, ra=ra, b=b, rb=rb, mode=mode):
                how = "" if mode == "natural" else "; A built from tuples of starts / ends with force_no_dup_check=True" \
                    if mode.startswith("tuples") else (
                    "; A obtained as: S = <A's spans with relation %s>; [x in S for x in all spans]; A = S.copy(); "
                    "A.eq_relation = %s()" % (RELS[(ra + 1) % len(RELS)][0], RELS[ra][2]))
                r.violation({"spec": "SpanSet", "part": "operator", "op": op, "kind": kind},
                            "%s  [A=%r/%s, B=%r/%s%s]" % (text, list(a), RELS[ra][0], list(b), RELS[rb][0], how),
                            {"engine": "input-enum", "part": "operator", "op": op, "A": a, "relA": RELS[ra][0],
                             "B": b, "relB": RELS[rb][0], "operand_mode": mode, "snippet": snippet(a, ra, b, rb, op)})
            stats["evaluations"] += judge_pair(A, a, ra, B, b, rb, emit, stats)
            stats["pairs"] += 1
        if not holds(A, a):
            r.harness_error("operand %r/%s changed under the operators: now %r" % (a, RELS[ra][0], list(A)))
    for b, rb, B in bs:
        if not holds(B, b):
            r.harness_error("operand %r/%s changed under the operators: now %r" % (b, RELS[rb][0], list(B)))
    return r.dump(), stats


# ---- construction + membership -------------------------------------------------------------------------

def forms(content, ri):
    """(form name, thunk, whether duplicates are checked)"""
    starts = [s for s, _ in content]
    ends = [e for _, e in content]
    R = lambda: rel_obj(ri)     # noqa
    return [
        ("pairs-list", lambda: SpanSet(list(content), eq_relation=R()), True),
        ("pairs-generator", lambda: SpanSet((p for p in content), eq_relation=R()), True),
        ("pairs-list+force_no_dup_check", lambda: SpanSet(list(content), force_no_dup_check=True, eq_relation=R()), True),
        ("starts-ends", lambda: SpanSet(list(starts), list(ends), eq_relation=R()), True),
        ("starts-ends-tuples", lambda: SpanSet(tuple(starts), tuple(ends), eq_relation=R()), True),
        ("starts-ends+force_no_dup_check=False", lambda: SpanSet(list(starts), list(ends), False, R()), True),
        ("starts-ends+force_no_dup_check", lambda: SpanSet(list(starts), list(ends), force_no_dup_check=True,
                                                            eq_relation=R()), False),
        # the collection handed to the constructor is itself a SpanSet (holding the spans as they are, repeats included)
        ("from-spanset", lambda: SpanSet(SpanSet(list(content), force_no_dup_check=True), eq_relation=R()), True),
    ]


def form_src(form, content, ri):
    starts = [s for s, _ in content]
    ends = [e for _, e in content]
    rn = RELS[ri][2]
    return {
        "pairs-list": "SpanSet(%r, eq_relation=%s())" % (list(content), rn),
        "pairs-generator": "SpanSet((p for p in %r), eq_relation=%s())" % (list(content), rn),
        "pairs-list+force_no_dup_check": "SpanSet(%r, force_no_dup_check=True, eq_relation=%s())" % (list(content), rn),
        "starts-ends": "SpanSet(%r, %r, eq_relation=%s())" % (starts, ends, rn),
        "starts-ends-tuples": "SpanSet(%r, %r, eq_relation=%s())" % (tuple(starts), tuple(ends), rn),
        "starts-ends+force_no_dup_check=False": "SpanSet(%r, %r, False, %s())" % (starts, ends, rn),
        "starts-ends+force_no_dup_check": "SpanSet(%r, %r, force_no_dup_check=True, eq_relation=%s())" % (starts, ends, rn),
        "from-spanset": "SpanSet(SpanSet(%r, force_no_dup_check=True), eq_relation=%s())" % (list(content), rn),
    }[form]


def judge_construction(content, ri, form, thunk, dedup, universe, emit):
    """-> evaluations"""
    exp = fold(content, ri) if dedup else tuple(content)
    r = observe(thunk)
    if r[0] != "ok":
        emit("construct", "raises", "construction -> %r, expected a set holding %r" % (r, list(exp)))
        return 1
    S = r[1]
    n = 1
    o = observe(lambda: [tuple(x) for x in S])
    if o != ("ok", list(exp)):
        emit("construct", "kept-spans" if dedup else "kept-spans-no-dup-check",
             "holds %r, construction by definition keeps %r" % (o[-1], list(exp)))
        return n
    o = observe(len, S)
    n += 1
    if o != ("ok", len(exp)):
        emit("len", "value", "len -> %r with spans %r" % (o[-1], list(exp)))
    # an iteration that is still open while a second one runs and membership is asked (nothing is modified)
    o = observe(lambda: [(tuple(x), [tuple(y) for y in S], x in S) for x in S])
    n += 1
    if o != ("ok", [(x, list(exp), mem(x, exp, ri)) for x in exp]):
        emit("iter", "nested", "[(x, list(S), x in S) for x in S] -> %r with S holding %r" % (o[-1], list(exp)))
    for x in universe:
        o = observe(operator.contains, S, x)
        n += 1
        if o != ("ok", mem(x, exp, ri)):
            emit("in", "raises" if o[0] != "ok" else "value",
                 "%r in S -> %r with S holding %r; some stored span related: %r" % (x, o[-1], list(exp), mem(x, exp, ri)))
    return n


def construction_part(report, uname, points, maxlen):
    universe = spans_of(points)
    contents = contents_of(points, maxlen)
    evals = built = dropped = rel_dependent = 0
    kept = set()
    for c in contents:
        folds = set()
        for ri in range(len(RELS)):
            f = fold(c, ri)
            folds.add(f)
            kept.add((f, ri))
            if len(f) < len(c):
                dropped += 1
            for form, thunk, dedup in forms(c, ri):
                def emit(op, kind, text, form=form, c=c, ri=ri):
                    src = form_src(form, c, ri)
                    report.violation({"spec": "SpanSet", "part": "construction", "op": op, "kind": kind},
                                     "%s: %s" % (src, text),
                                     {"engine": "input-enum", "part": "construction", "form": form, "spans": c,
                                      "rel": RELS[ri][0],
                                      "snippet": "from windpyutils.structures.span_set import *\nS = %s\n"
                                                 "print(list(S), len(S), [(x, x in S) for x in %r])" % (src, universe)})
                evals += judge_construction(c, ri, form, thunk, dedup, universe, emit)
                built += 1
        if len(folds) > 1:
            rel_dependent += 1
    report.nontrivial_n(dropped)
    if contents and not (dropped and rel_dependent):
        report.harness_error("construction part of %s never dropped a span / never depended on the relation" % uname)
    report.part("construction/" + uname, states=len(kept), transitions=built, traces_validated_against_impl=built,
                evaluations=evals, exhaustive=True, points=list(points), max_len=maxlen, span_lists=len(contents),
                relations=len(RELS), constructor_forms=len(forms((), 0)),
                list_x_relation_cases_where_a_span_is_dropped=dropped,
                lists_whose_kept_spans_depend_on_the_relation=rel_dependent,
                distinct_kept_contents_x_relation=len(kept))


def operator_part(report, uname, points, maxlen):
    contents = contents_of(points, maxlen)
    t0 = time.time()
    results = pmap(pair_task, [(uname, points, maxlen, ia) for ia in range(len(contents))])
    cells = set()
    tot = {"dedup_effective": 0, "nontrivial": 0, "asymmetric": 0, "pairs": 0, "evaluations": 0, "unbuildable": 0}
    relres = {}
    for d, st in results:
        report.merge(d)
        cells |= st["cells"]
        for k in tot:
            tot[k] += st[k]
        for k, v in st["result_relation"].items():
            relres[k] = relres.get(k, 0) + v
    report.nontrivial_n(tot["nontrivial"])
    # anti-vacuity: every operator x relation pair saw both outcomes (True/False resp. empty/non-empty)
    ops = [o for o, _f, _g in SET_FORMULAS] + [o for o, _f in BOOL_OPS]
    missing = [(op, RELS[ra][0], RELS[rb][0], out) for op in ops for ra in range(len(RELS))
               for rb in range(len(RELS)) for out in (False, True) if (op, ra, rb, out) not in cells]
    if missing and not tot["unbuildable"]:
        report.harness_error("operator part of %s: outcome classes never reached: %r" % (uname, missing[:6]))
    if not (tot["dedup_effective"] and tot["asymmetric"] and tot["nontrivial"]):
        report.harness_error("operator part of %s is vacuous: %r" % (uname, tot))
    report.part("operators/" + uname, states=len(contents) * len(RELS), transitions=tot["evaluations"],
                traces_validated_against_impl=tot["evaluations"], evaluations=tot["evaluations"],
                exhaustive=not tot["unbuildable"], operands_skipped_because_construction_failed=tot["unbuildable"],
                points=list(points), max_len=maxlen, contents=len(contents), operands=len(contents) * len(RELS),
                ordered_operand_pairs=tot["pairs"], operators=len(ops),
                pairs_where_some_operator_differs_from_plain_set_semantics=tot["nontrivial"],
                pairs_with_A_le_B_different_from_A_ge_B=tot["asymmetric"],
                set_operator_results_where_exact_dedup_removed_a_span=tot["dedup_effective"],
                outcome_cells_reached=len(cells), outcome_cells_total=len(ops) * len(RELS) ** 2 * 2,
                observed_relation_of_operator_results_not_judged=relres,
                wall_s=round(time.time() - t0, 1))


def run(report, tier):
    report.rule("one evaluation = one operator (& | - ^ <= < == != >= > isdisjoint issubset issuperset) applied to one "
                "ordered operand pair (content x relation each) resp. one construction / len / membership probe, compared "
                "with the brute-force formula; states = distinct operands (content x relation); non-trivial = operand "
                "pairs on which at least one operator's defined result differs from plain frozenset semantics of the "
                "same spans, plus (span list, relation) constructions that drop a span")
    if tier == "quick":
        spaces = [("3pt", (0, 1, 2), 2)]
    else:
        spaces = [("3pt", (0, 1, 2), 3), ("4pt", (0, 1, 2, 3), 2)]
    for uname, points, maxlen in spaces:
        # construction is cheap and an "already in" scan over >= 2 kept spans needs lists of length 3
        # ... and a kept-index that has shifted against the input index (a dropped duplicate, then a repeat) length 4
        construction_part(report, "%s-len%d" % (uname, maxlen + 2), points, maxlen + 2)
        operator_part(report, "%s-len%d" % (uname, maxlen), points, maxlen)
    ex = ((1, 1), (0, 2))
    report.sample({"A": [(0, 2)], "relA": "PartOf", "B": [(0, 0), (1, 2)], "relB": "Includes",
                   "A&B": expected_setop(SET_FORMULAS[0][2], ((0, 2),), 1, ((0, 0), (1, 2)), 2)[0],
                   "bools": expected_bools(((0, 2),), 1, ((0, 0), (1, 2)), 2)})
    report.sample({"span_list": ex, "kept": {RELS[ri][0]: fold(ex, ri) for ri in range(len(RELS))}})
    report.assume("operands holding mutually related / repeated spans are built with force_no_dup_check=True, whose "
                  "documented contract (spans kept as given) is checked as its own violation kind")
    report.assume("the relation object of operator results is recorded, not judged; the iteration order of operator "
                  "results (first occurrence in chain(A, B)) is judged under its own kind 'order'")


def replay(rec):
    rp = rec["replay"]
    print(rec["what"])
    print(rp.get("snippet"))
    bad = []

    def emit(op, kind, text):
        bad.append((op, kind, text))
    if rp.get("part") == "operator":
        a = tuple(tuple(x) for x in rp["A"])
        b = tuple(tuple(x) for x in rp["B"])
        ra, rb = REL_INDEX[rp["relA"]], REL_INDEX[rp["relB"]]
        judge_pair(build_operand(a, ra), a, ra, build_operand(b, rb), b, rb, emit)
        bad = [x for x in bad if x[0] == rp["op"]]
    else:
        c = tuple(tuple(x) for x in rp["spans"])
        ri = REL_INDEX[rp["rel"]]
        universe = sorted({(s, e) for s in range(4) for e in range(4) if s <= e})
        for form, thunk, dedup in forms(c, ri):
            if form == rp["form"]:
                judge_construction(c, ri, form, thunk, dedup, universe, emit)
    for op, kind, text in bad:
        print("STILL FAILS [%s/%s]: %s" % (op, kind, text))
    if not bad:
        print("no longer reproduces")
    return 1 if bad else 0
