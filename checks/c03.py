"""C03 -- a pool stays correct across consecutive calls and across worker replacement."""
from checks import pool_plans as P
from checks.poolmc import run_pool_check, replay_pool, Config


def run(report, tier):
    shapes = P.call_shapes()
    empty = ("imap", "list", 0, 1)
    emptyu = ("imap_unordered", "list", 0, 1)
    a, b = ("imap", "list", 2, 1), ("imap_unordered", "list", 2, 2)
    grid = []
    if tier == "quick":
        plan = [(P.P4(), 2, 0, None), (P.P5(), 2, 0, None), (P.P6(), 1, 0, None), (P.P11(), 2, 0, None),
                (P.D5(), 0, 1, None), (P.P5w(), 1, 0, None), (P.P12(), 1, 0, None), (P.P13(), 0, 0, None),
                (P.J5(), 1, 1, None)]
        hs = [[a, empty], [empty, a], [a, empty, b], [b, emptyu, a], [empty, empty, a], [a, b, empty]]
        plan += [(P.history("H%d" % i, h), 2, 0, None) for i, h in enumerate(hs)]
        plan += [(Config("Q2", kind="factory", quota=2, workers=1, calls=[("imap", "list", 3, 1), ("imap_unordered", "list", 2, 1)]), 1, 0, None)]
    else:
        plan = [(P.P4(), None, 0, None), (P.P5(), 2, 0, None), (P.P6(), 2, 0, None), (P.P11(), None, 0, None),
                (P.D5(), 1, 1, None), (P.D6(), 0, 1, None), (P.D6(), 1, 1, 600000), (P.P5w(), 2, 0, None), (P.P12(), 2, 0, None), (P.P13(), 1, 0, None), (P.J5(), 2, 1, None)]
        k = 0
        for x in shapes:
            for y in shapes:
                grid.append((P.history("HH%d" % k, [x, y]), 2, 0, 100000))
                k += 1
        for q in (1, 2):
            for w in (1, 2):
                plan.append((Config("F[q%d,w%d]" % (q, w), kind="factory", quota=q, workers=w, family="F",
                                    calls=[("imap", "list", 2, 1), ("imap_unordered", "list", 3, 2 if q == 1 else 1)]),
                             2 if w == 1 else 1, 0, 400000))
    run_pool_check(report, "C03", plan, grid=grid or None)


def replay(rec):
    return replay_pool(rec)
