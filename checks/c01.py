"""C01 -- ordered imap returns exactly map(f, data); imap_unordered the same multiset, chunk order kept.
All schedules of the real own_proc_pools.py under the controlled scheduler (engine A), see DESIGN.md §5."""
from checks import pool_plans as P
from checks.poolmc import run_pool_check, replay_pool


def run(report, tier):
    if tier == "quick":
        plan = [(P.P1(), None, 0, None), (P.P2(), 2, 0, None), (P.P3(), 1, 0, None), (P.P4(), 2, 0, None),
                (P.P5(), 1, 0, None), (P.P6(), 1, 0, None), (P.P7(), 1, 0, None), (P.P8(), 1, 0, None)]
    else:
        plan = [(P.P1(), None, 0, None), (P.P2(), 3, 0, None), (P.P3(), 2, 0, None), (P.P4(), None, 0, None),
                (P.P5(), 2, 0, None), (P.P6(), 2, 0, None), (P.P7(), 2, 0, None), (P.P8(), 2, 0, None)]
        plan += [(c, 2, 0, 150000) for c in P.grid()]
    run_pool_check(report, "C01", plan)
    # the virtual concurrency layer the exploration rests on, compared with the real primitives
    from conformance.primitives import run_conformance
    run_conformance(report, depth=4 if tier == "quick" else 5)


def replay(rec):
    return replay_pool(rec)
