"""C01 -- ordered imap returns exactly map(f, data); imap_unordered the same multiset, chunk order kept.
All schedules of the real own_proc_pools.py under the controlled scheduler (engine A), see DESIGN.md §5."""
from checks import pool_plans as P
from checks.poolmc import run_pool_check, replay_pool


def run(report, tier):
    grid = None
    if tier == "quick":
        plan = [(P.P1(), None, 0, None), (P.P2(), 2, 0, None), (P.P3(), 1, 0, None), (P.P4(), 2, 0, None),
                (P.P5(), 1, 0, None), (P.P6(), 1, 0, None), (P.P7(), 1, 0, None), (P.P8(), 1, 0, None),
                (P.P9(), 2, 0, None), (P.P10(), 1, 0, None), (P.Z1(), 1, 0, None), (P.V1(), 1, 0, None), (P.Q1(), 1, 0, None)]
    else:
        plan = [(P.P1(), None, 0, None), (P.P2(), 3, 0, None), (P.P3(), 2, 0, None), (P.P4(), None, 0, None),
                (P.P5(), 2, 0, None), (P.P6(), 2, 0, None), (P.P7(), 2, 0, None), (P.P8(), 2, 0, None),
                (P.P9(), None, 0, None), (P.P10(), 2, 0, None), (P.Z1(), 2, 0, None), (P.V1(), 2, 0, None), (P.Q1(), 2, 0, None)]
        grid = [(c, 2, 0, 60000) for c in P.grid()]
    run_pool_check(report, "C01", plan, grid=grid if tier != "quick" else None)
    # the virtual concurrency layer the exploration rests on, compared with the real primitives
    from conformance.primitives import run_conformance
    run_conformance(report, depth=4 if tier == "quick" else 5)
    if tier == "thorough":
        real_outcome_inclusion(report)


def real_outcome_inclusion(report, runs=2):
    """the drivers run free on the real library; every outcome must be among the explored observations
    (on a tree where the property holds: the expected outputs).  Own session, log to a file, killed by group."""
    import json
    import os
    import signal
    import subprocess
    import tempfile
    repo = os.environ.get("VERIF_REPO", "/repo")
    here = os.path.dirname(os.path.dirname(os.path.abspath(__file__)))
    ok = bad = 0
    for i in range(runs):
        fd, outp = tempfile.mkstemp(prefix="verif-real-", suffix=".json", dir="/dev/shm")
        os.close(fd)
        with open(outp + ".log", "w") as log:
            p = subprocess.Popen(["/venv/bin/python", os.path.join(here, "conformance", "real_drivers.py"), repo, outp],
                                 stdout=log, stderr=log, start_new_session=True)
            try:
                p.wait(150)
            except subprocess.TimeoutExpired:
                pass
            try:
                os.killpg(p.pid, signal.SIGKILL)
            except OSError:
                pass
        try:
            res = json.load(open(outp))
        except Exception:   # noqa
            res = None
        for f_ in (outp, outp + ".log"):
            try:
                os.remove(f_)
            except OSError:
                pass
        if res is None:
            bad += 1
            report.violation({"family": "real", "kind": "real-run-hang-or-crash"},
                             "free run of the drivers on the real library did not finish", {"engine": "real"})
            continue
        for name, calls in res.items():
            for c in calls:
                exp = [2 * x + 1 for x in c["data"]]
                good = c["got"] == exp if c["mode"] == "imap" else sorted(c["got"]) == sorted(exp)
                if good:
                    ok += 1
                else:
                    bad += 1
                    report.violation({"family": "real", "kind": "wrong-output", "driver": name},
                                     "real library, free run of %s: %s(%r) -> %r" % (name, c["mode"], c["data"], c["got"]),
                                     {"engine": "real", "driver": name})
    report.part("real-process-outcome-inclusion", states=ok + bad, transitions=ok + bad, evaluations=ok + bad,
                traces_validated_against_impl=ok, exhaustive=True, free_runs=runs, calls_ok=ok, calls_bad=bad,
                what="validation of the exploration's outcomes against free runs of the same drivers on the real "
                     "multiprocessing library (sampled schedules; validation only, not the verdict)")


def replay(rec):
    return replay_pool(rec)
