"""C11 -- line files (read-only use): indexing, slicing and iteration return exactly the file's lines.

Enumerated (all of it, no sampling):
  contents   every string over {a, e-acute (2 bytes), LF, CR} of length <= L (quick 4: 341 files, thorough 6: 5 461 files),
             28 buffer-boundary files (one line of 8191/8192/8193/16385 bytes of 1-/2-/3-byte characters, 65535/131071 bytes of 1-byte ones, two layouts)
             and 9 whitespace probe files (one per non-terminator white-space character: a terminator strip must
             remove the LF only)
  variants   the 8 concrete classes (memory-mapped ones skip the empty file), record classes with an identity record
  indexes    built / passed as list / read from an index file / every k-permutation (k <= 3) of the line offsets
  static     on one object per (file, variant, index): len, f[i] for i in [-n-2, n+1], a slice set, f[[i, j]] for all
             i, j in [-n, n), other index iterables, out-of-range iterables, list(f) twice, a complete manual iteration
  histories  (seqmc, files with >= 2 lines) every sequence up to depth D of: len, f[i] (i in [-n-1, n]), three slices,
             two index lists, it1=iter(f), it2=iter(f), next(it1), next(it2), list(f); states merged by the canonical
             key of the object, its handle position and the iterator frames

Oracle: ref = content.split('\\n') minus a final empty piece, selected through the supplied index; Python list
semantics for len / int / slice / iterable of ints (IndexError outside); every iterator yields the selected lines in
order whatever else is done on the object in between.  The buffered and the memory-mapped variants are compared with
the same reference on the same histories, hence with each other.
"""
import itertools
import os
import shutil
from dataclasses import dataclass

from mc import par
from mc.canon import canon
from mc.report import Report
from mc.seqmc import Spec, Mismatch, explore, observe
from windpyutils import files as wf

PROP = "C11"
ALPHABET = ("a", "é", "\n", "\r")
SPEC_NAME = "linefile"


@dataclass
class Raw(wf.Record):
    """identity-like record: the raw line, so that record files accept any content"""
    s: str

    @classmethod
    def load(cls, s):
        return cls(s)

    def save(self):
        return self.s


# name -> (class, buffered?, record?)
VARIANTS = {
    "RandomLineAccessFile": (wf.RandomLineAccessFile, True, False),
    "MutableRandomLineAccessFile": (wf.MutableRandomLineAccessFile, True, False),
    "RecordFile": (wf.RecordFile, True, True),
    "MutableRecordFile": (wf.MutableRecordFile, True, True),
    "MemoryMappedRandomLineAccessFile": (wf.MemoryMappedRandomLineAccessFile, False, False),
    "MutableMemoryMappedRandomLineAccessFile": (wf.MutableMemoryMappedRandomLineAccessFile, False, False),
    "MemoryMappedRecordFile": (wf.MemoryMappedRecordFile, False, True),
    "MutableMemoryMappedRecordFile": (wf.MutableMemoryMappedRecordFile, False, True),
}

WHEN_CR = "content contains \\r and variant is buffered"
WHEN_INTERLEAVED = "iteration interleaved with other reads on the same object"
WHEN_CUSTOM = "iteration with a caller-supplied subset/permutation index"
WHEN_PLAIN = "plain"


# ------------------------------------------------------------------------------------------ reference

def ref_lines(content):
    ref = content.split("\n")
    if ref[-1] == "":
        ref.pop()
    return ref


def ref_offsets(ref):
    offs, pos = [], 0
    for line in ref:
        offs.append(pos)
        pos += len(line.encode("utf-8")) + 1
    return offs


def selector_of(op):
    kind, arg = op[1], op[2]
    if kind == "list":
        return list(arg)
    if kind == "tuple":
        return tuple(arg)
    if kind == "range":
        return range(*arg)
    if kind == "gen":
        return (x for x in arg)
    raise AssertionError(op)


def selector_src(op):
    kind, arg = op[1], op[2]
    if kind == "list":
        return repr(list(arg))
    if kind == "tuple":
        return repr(tuple(arg))
    if kind == "range":
        return "range(%s)" % ", ".join(map(str, arg))
    return "(x for x in %r)" % (list(arg),)


def slice_src(s):
    return ":".join("" if x is None else str(x) for x in s)


# ------------------------------------------------------------------------------------------ the spec

class Harness:
    """the object under test + the iterators a client holds on it"""

    def __init__(self, f):
        self.f = f
        self.its = [None, None]


class LineSpec(Spec):
    """init = {"class", "content", "index": [kind, sel]}; model = (pos1, pos2, disturbed1, disturbed2)"""
    name = SPEC_NAME

    def __init__(self, init, path, idxpath):
        self.init = init
        self.path = path
        self.cls, self.buffered, self.record = VARIANTS[init["class"]]
        self.content = init["content"]
        self.ref = ref_lines(self.content)
        self.offsets = ref_offsets(self.ref)
        self.ikind, sel = init["index"]
        self.idxpath = idxpath
        self.sel = list(range(len(self.ref))) if sel is None else list(sel)
        self.exp = [self.ref[i] for i in self.sel]
        self.n = len(self.exp)
        self.cr = "\r" in self.content
        self.custom = self.ikind == "custom"

    # -- construction ---------------------------------------------------------------------------
    def index_arg(self):
        if self.ikind == "built":
            return None
        if self.ikind == "file":
            return self.idxpath
        return [self.offsets[i] for i in self.sel]      # a fresh list every time

    def initials(self):
        # fresh object; object on which a client already holds an iterator that has delivered one line
        return [self.init, dict(self.init, prefix=[["iter", 0], ["next", 0]])]

    def build(self, init):
        arg = self.index_arg()
        if self.record:
            f = self.cls(self.path, Raw, arg)
        else:
            f = self.cls(self.path, arg)
        f.open()
        impl, model = Harness(f), (None, None, False, False, False, False)
        for op in init.get("prefix", ()):
            model = self.step(impl, model, op)
        return impl, model

    def cleanup(self, impl):
        for it in impl.its:
            if it is not None:
                try:
                    it.close()
                except Exception:   # noqa
                    pass
        try:
            impl.f.close()
        except Exception:   # noqa
            pass

    # -- menu -----------------------------------------------------------------------------------
    def ops(self, impl, model):
        n = self.n
        menu = [("len",)]
        menu += [("get", i) for i in range(-n - 1, n + 1)]
        menu += [("slice", s) for s in ((None, None, None), (None, None, -1), (1, None, None))]
        menu += [("sel", "list", [n - 1, 0]), ("sel", "list", [0, n])]
        menu += [("iter", 0), ("iter", 1)]
        if model[0] is not None:
            menu.append(("next", 0))
        if model[1] is not None:
            menu.append(("next", 1))
        menu.append(("list",))
        if model[0] is not None or model[1] is not None:
            menu.append(("reopen",))       # close() + open() of the object while an iteration of it is alive
        return menu

    # -- oracle ---------------------------------------------------------------------------------
    def norm(self, v):
        if self.record:
            return v.s if type(v) is Raw else ("not-a-record", repr(v))
        return v if type(v) is str else ("not-a-str", repr(v))

    def norm_list(self, v):
        if type(v) is not list:
            return ("not-a-list", type(v).__name__)
        return [self.norm(x) for x in v]

    def when(self, group, interleaved):
        if self.cr and self.buffered:
            return WHEN_CR
        if group == "iterate" and interleaved:
            return WHEN_INTERLEAVED
        if group == "iterate" and self.custom:
            return WHEN_CUSTOM
        return WHEN_PLAIN

    def step(self, impl, model, op):
        f, exp, n = impl.f, self.exp, self.n
        p = [model[0], model[1]]
        d = [model[2], model[3]]
        ro = [model[4], model[5]]       # the object was closed and opened again since this iteration's last step
        kind = op[0]
        group, interleaved = "index", False

        def disturb(but=None):
            for k in (0, 1):
                if k != but and p[k] is not None and p[k] > 0:
                    d[k] = True

        if kind == "len":
            group = "len"
            got = observe(len, f)
            want = ("ok", n)
        elif kind == "get":
            i = op[1]
            got = observe(f.__getitem__, i)
            want = ("ok", exp[i]) if -n <= i < n else ("exc", "IndexError")
            if got[0] == "ok":
                got = ("ok", self.norm(got[1]))
            disturb()
        elif kind == "slice":
            got = observe(f.__getitem__, slice(*op[1]))
            want = ("ok", exp[slice(*op[1])])
            if got[0] == "ok":
                got = ("ok", self.norm_list(got[1]))
            disturb()
        elif kind == "sel":
            got = observe(f.__getitem__, selector_of(op))
            idx = list(selector_of(op))
            want = ("ok", [exp[i] for i in idx]) if all(-n <= i < n for i in idx) else ("exc", "IndexError")
            if got[0] == "ok":
                got = ("ok", self.norm_list(got[1]))
            disturb()
        elif kind == "list":
            group = "iterate"
            got = observe(list, f)
            want = ("ok", list(exp))
            if got[0] == "ok":
                got = ("ok", self.norm_list(got[1]))
            disturb()
        elif kind == "iter":
            group = "iterate"
            k = op[1]
            if impl.its[k] is not None:
                impl.its[k].close()
            r = observe(iter, f)
            if r[0] != "ok":
                raise self.mismatch("exception", op, "iter(f) -> %r" % (r,), group, False, tuple(p + d + ro))
            impl.its[k] = r[1]
            p[k], d[k], ro[k] = 0, False, False
            return tuple(p + d + ro)
        elif kind == "reopen":
            group = "reopen"
            got = observe(lambda: (f.close(), f.open()) and None)
            want = ("ok", None)
            for k in (0, 1):
                if p[k] is not None:
                    d[k] = True
                    ro[k] = True
        elif kind == "next":
            group = "iterate"
            k = op[1]
            interleaved = d[k]
            got = observe(next, impl.its[k])
            if ro[k] and got[0] == "exc" and got[1] != "StopIteration":
                # the statement does not say that an iteration survives close(): refusing to go on is accepted
                # (a wrong line is not), the iteration is over then
                impl.its[k] = None
                p[k], d[k], ro[k] = None, False, False
                return tuple(p + d + ro)
            ro[k] = False
            if p[k] < n:
                want = ("ok", exp[p[k]])
                p[k] += 1
            else:
                want = ("exc", "StopIteration")
            if got[0] == "ok":
                got = ("ok", self.norm(got[1]))
            disturb(but=k)
        else:
            raise AssertionError(op)
        model2 = tuple(p + d + ro)
        if got != want:
            if got[0] != "ok":
                mk = "exception"
            elif want[0] != "ok":
                mk = "no-exception"
            elif kind == "len":
                mk = "len-mismatch"
            else:
                mk = "value-mismatch"
            raise self.mismatch(mk, op, "%s -> %s, reference %s" % (self.op_src(op), short(got), short(want)),
                                group, interleaved, model2)
        return model2

    def mismatch(self, mk, op, detail, group, interleaved, model2):
        m = Mismatch(mk, "%s(content=%r, index=%s): %s" % (self.init["class"], clip(self.content),
                                                          self.index_src(), detail),
                     {"op": group, "variant": "buffered" if self.buffered else "mmap", "record": self.record,
                      "when": self.when(group, interleaved)})
        m.model2 = model2
        return m

    # -- state key ------------------------------------------------------------------------------
    def key(self, impl, model):
        frames = []
        for it in impl.its:
            fr = getattr(it, "gi_frame", None)
            frames.append(None if it is None else ("done",) if fr is None else (fr.f_lasti, dict(fr.f_locals)))
        return canon((impl.f, frames, model))

    def nontrivial(self, impl, model):
        # an iterator that is under way and has been disturbed by another read
        return any(model[k] is not None and 0 < model[k] and model[2 + k] for k in (0, 1))

    # -- rendering ------------------------------------------------------------------------------
    def index_src(self):
        if self.ikind == "built":
            return "None"
        if self.ikind == "file":
            return "<index file with %r>" % ([self.offsets[i] for i in self.sel],)
        return repr([self.offsets[i] for i in self.sel])

    def op_src(self, op):
        kind = op[0]
        if kind == "len":
            return "len(f)"
        if kind == "get":
            return "f[%d]" % op[1]
        if kind == "slice":
            return "f[%s]" % slice_src(op[1])
        if kind == "sel":
            return "f[%s]" % selector_src(op)
        if kind == "list":
            return "list(f)"
        if kind == "iter":
            return "it%d = iter(f)" % (op[1] + 1)
        if kind == "reopen":
            return "f.close(); f.open()"
        return "next(it%d)" % (op[1] + 1)

    def snippet(self, init, hist):
        cname = self.init["class"]
        lines = ["import tempfile", "from windpyutils.files import *"]
        if self.record:
            lines.append("R = type('R', (Record,), {'__init__': lambda self, s: setattr(self, 's', s), "
                         "'load': classmethod(lambda cls, s: cls(s)), 'save': lambda self: self.s})")
        lines.append("p = tempfile.mkdtemp() + '/f.txt'; open(p, 'wb').write(%s.encode())" % content_src(self.content))
        arg = ""
        if self.ikind == "file":
            lines.append("open(p + '.idx', 'w').write(%r)" % "".join("%d\n" % self.offsets[i] for i in self.sel))
            arg = ", p + '.idx'"
        elif self.ikind != "built":
            arg = ", %r" % ([self.offsets[i] for i in self.sel],)
        lines.append("f = %s(p%s%s).open()" % (cname, ", R" if self.record else "", arg))
        body = [self.op_src(op) for op in list(init.get("prefix", ())) + list(hist)]
        if body:
            last = body[-1]
            body[-1] = "print(%s)" % last if not last.startswith("it") else last
        lines += body
        lines.append("# reference lines: %s" % short(self.exp))
        return "\n".join(lines)


def clip(s, limit=40):
    return s if len(s) <= limit else s[:12] + "...<%d chars>..." % len(s) + s[-12:]


def short(x, limit=120):
    s = repr(x)
    return s if len(s) <= limit else s[:50] + "...<%d chars>..." % len(s) + s[-50:]


def content_src(content):
    """literal Python expression for the content, compressing the long runs of the boundary files"""
    if len(content) <= 60:
        return repr(content)
    out = []
    for ch, grp in itertools.groupby(content):
        k = len(list(grp))
        out.append("%r*%d" % (ch, k) if k > 8 else repr(ch * k))
    return "(" + " + ".join(out) + ")"


# ------------------------------------------------------------------------------------------ drivers

STATIC_SLICES = ((None, None, None), (None, None, -1), (1, None, None), (None, -1, None), (None, None, 2),
                 (-2, None, None), (None, 1, None), (1, 3, None), (-1, None, -2), (3, 0, -1), (7, None, None),
                 (None, -9, -1))


def static_ops(n):
    ops = [("len",)]
    ops += [("get", i) for i in range(-n - 2, n + 2)]
    ops += [("slice", s) for s in STATIC_SLICES]
    ops += [("sel", "list", [i, j]) for i in range(-n, n) for j in range(-n, n)]
    ops += [("sel", "list", []), ("sel", "tuple", list(range(n))), ("sel", "range", [n]),
            ("sel", "range", [n - 1, -1, -1]), ("sel", "gen", list(range(n - 1, -1, -1))),
            ("sel", "list", [0, n]), ("sel", "list", [-n - 1]), ("sel", "tuple", [n + 3])]
    ops += [("list",), ("list",)]
    ops += [("iter", 0)] + [("next", 0)] * (n + 2)
    if n:
        ops += [("get", n - 1), ("list",)]
    return ops


class Emit:
    """violation reporting with the replay material built only for the first case of a signature"""

    def __init__(self, report):
        self.report = report
        self.seen = set()

    def __call__(self, spec, m, hist):
        sig = {"spec": SPEC_NAME, "kind": m.kind}
        sig.update(m.sig_extra)
        k = repr(sorted(sig.items()))
        if k in self.seen:
            self.report.violation(sig, "", {})
            return
        self.seen.add(k)
        self.report.violation(sig, "%s: %s: %s" % (SPEC_NAME, m.kind, m.detail),
                              {"engine": "seqmc", "spec": SPEC_NAME, "init": spec.init, "history": list(hist),
                               "detail": m.detail, "snippet": spec.snippet(spec.init, self.relevant(hist)),
                               "part": "static"})

    @staticmethod
    def relevant(hist):
        """operations of the static sequence are independent except next(), which needs its iter()"""
        if hist[-1][0] != "next":
            return hist[-1:]
        start = max(i for i, op in enumerate(hist) if op[0] == "iter")
        return hist[start:]


def run_static(spec, emit, counters):
    """the fixed operation sequence on one object; every operation is evaluated, a mismatch does not stop it"""
    impl, model = spec.build(spec.init)
    hist = []
    try:
        for op in static_ops(spec.n):
            hist.append(op)
            counters["evals"] += 1
            try:
                model = spec.step(impl, model, op)
            except Mismatch as m:
                model = m.model2
                emit(spec, m, hist)
    finally:
        spec.cleanup(impl)
    counters["objects"] += 1


def index_sources(n, maxk=3):
    """[kind, sel]: built, list, file with the true offsets; every k-permutation of the lines, k <= maxk"""
    out = [["built", None], ["list", None], ["file", None]]
    for k in range(0, maxk + 1):
        for sel in itertools.permutations(range(n), k):
            if list(sel) == list(range(n)):
                continue            # the natural index: already there as "list"
            out.append(["custom", list(sel)])
    return out


def history_index_sources(n, maxk=3):
    """histories: built, index file, and every selection of 2..maxk lines in every order"""
    out = [["built", None], ["file", None]]
    for k in range(2, maxk + 1):
        for sel in itertools.permutations(range(n), k):
            if list(sel) == list(range(n)):
                continue
            out.append(["custom", list(sel)])
    return out


MAXK = {"small": 3, "boundary": 2, "whitespace": 1}      # longest caller-supplied selection per file group


def file_task(task):
    """everything for one file content; runs in a worker"""
    idx, group, content, depth, hmaxk, scratch = task
    maxk = MAXK[group]
    r = Report(PROP, collect_only=True)
    emit = Emit(r)
    path = os.path.join(scratch, "f%d.txt" % idx)
    with open(path, "wb") as fh:
        fh.write(content.encode("utf-8"))
    ref = ref_lines(content)
    n = len(ref)
    offsets = ref_offsets(ref)
    counters = {"evals": 0, "objects": 0}
    made = [path]
    idxfiles = {}

    def idxfile(sel):
        k = tuple(range(n)) if sel is None else tuple(sel)
        if k not in idxfiles:
            p = os.path.join(scratch, "f%d.%d.idx" % (idx, len(idxfiles)))
            with open(p, "w") as fh:
                fh.write("".join("%d\n" % offsets[i] for i in k))
            idxfiles[k] = p
            made.append(p)
        return idxfiles[k]

    feats = (n if n < 4 else 4, "\r" in content, "é" in content or "€" in content,
             content.endswith("\n"), "" in ref)
    try:
        for cname, (cls, buffered, record) in VARIANTS.items():
            if not buffered and content == "":
                continue
            for isrc in index_sources(n, maxk):
                init = {"class": cname, "content": content, "index": isrc}
                spec = LineSpec(init, path, idxfile(None) if isrc[0] == "file" else None)
                run_static(spec, emit, counters)
                r.nontrivial(("static", cname, isrc[0], len(spec.sel) if isrc[1] is not None else -1) + feats)
                if isrc[1] is not None and len(isrc[1]) <= 2:
                    # the same selection through an index FILE whose path is reused (rewritten) for every selection:
                    # each construction must read the file as it is now
                    p2 = os.path.join(scratch, "f%d.sel.idx" % idx)
                    with open(p2, "w") as fh:
                        fh.write("".join("%d\n" % offsets[i] for i in isrc[1]))
                    if p2 not in made:
                        made.append(p2)
                    spec2 = LineSpec({"class": cname, "content": content, "index": ["file", list(isrc[1])]}, path, p2)
                    run_static(spec2, emit, counters)
        hist = {"states": 0, "transitions": 0, "explorations": 0}
        if n >= 2 and depth > 0:
            for cname in VARIANTS:
                for isrc in history_index_sources(n, hmaxk):
                    init = {"class": cname, "content": content, "index": isrc}
                    spec = LineSpec(init, path, idxfile(None) if isrc[0] == "file" else None)
                    res = explore(spec, r, max_depth=depth)
                    hist["states"] += res["states"]
                    hist["transitions"] += res["transitions"]
                    hist["explorations"] += 1
    finally:
        for p in made:
            try:
                os.unlink(p)
            except OSError:
                pass
    # one compact record per file instead of one per exploration
    r.cov["parts"] = []
    r.cov["states"] += counters["objects"]
    r.cov["transitions"] += counters["evals"]
    r.cov["evaluations"] += counters["evals"]
    r.cov["traces_validated_against_impl"] += counters["evals"]
    d = r.dump()
    d["c11"] = {"group": group, "n": n, "static_objects": counters["objects"], "static_evals": counters["evals"],
                "hist": hist, "cr": "\r" in content, "mb": feats[2]}
    return d


# ------------------------------------------------------------------------------------------ spaces

def small_contents(maxlen):
    out = []
    for k in range(maxlen + 1):
        for t in itertools.product(ALPHABET, repeat=k):
            out.append("".join(t))
    return out


def boundary_contents():
    out = []
    # 65535 / 131071: the line with its terminator is an exact multiple of 64 KiB (piece-wise readers)
    for nbytes in (8191, 8192, 8193, 16385, 65535, 131071):
        for ch in ("a", "é", "€") if nbytes < 65535 else ("a",):
            w = len(ch.encode("utf-8"))
            body = ch * (nbytes // w)
            pad = "b" * (nbytes - w * (nbytes // w))
            # layout A: the long line first, multi-byte characters aligned to offset 0
            out.append(body + pad + "\n" + "é\n\nab")
            # layout B: a short line first and the padding in front: characters straddle the buffer boundary
            out.append("b\n" + pad + body + "\n\né\n")
    return out


WHITESPACE = (" ", "\t", "\x0b", "\x0c", "\x1c", "\x85", "\xa0", "\u2028", "\u3000")


def whitespace_contents():
    return ["a%s\n%s\n%sa\n%s%s" % (c, c, c, c, c) for c in WHITESPACE]


def run(report, tier):
    quick = tier == "quick"
    maxlen = 4 if quick else 6
    hist_bounds = ("depth 3, index sources built / file / all 2- and 3-permutations" if quick else
                   "content length <=4: depth 5, built / file / all 2- and 3-permutations; length 5: depth 4, "
                   "built / file / all 2-permutations; length 6: depth 3, built / file")
    bdepth = 2 if quick else 3
    scratch = "/dev/shm/verif-%d-c11" % os.getpid()
    shutil.rmtree(scratch, ignore_errors=True)
    os.makedirs(scratch)
    report.rule("one evaluation = one read operation (len / f[i] / slice / index iterable / next / list) on a real open "
                "line-file object compared with the reference lines; states = distinct (object, handle position, "
                "iterator frames) states of the history exploration + objects of the static sequence; non-trivial = "
                "distinct (class, index source, selection size, #lines, has CR, has multi-byte, final LF, has empty line) "
                "classes of the static part + history states with an iterator under way that another read has disturbed")
    tasks = []
    for c in small_contents(maxlen):
        if quick:
            tasks.append(["small", c, 3, 3])
        elif len(c) <= 4:
            tasks.append(["small", c, 5, 3])
        elif len(c) == 5:
            tasks.append(["small", c, 4, 2])
        else:
            tasks.append(["small", c, 3, 0])
    for c in boundary_contents():
        tasks.append(["boundary", c, bdepth, MAXK["boundary"]])
    for c in whitespace_contents():
        tasks.append(["whitespace", c, 1, MAXK["whitespace"]])
    tasks = [(i, g, c, d, k, scratch) for i, (g, c, d, k) in enumerate(tasks)]
    # biggest tasks first for balance; results are merged in task order
    order = sorted(range(len(tasks)), key=lambda i: (-len(ref_lines(tasks[i][2])), i))
    try:
        res = par.pmap(file_task, [tasks[i] for i in order])
    finally:
        shutil.rmtree(scratch, ignore_errors=True)
    by_idx = dict(zip(order, res))
    groups = {}
    for i in range(len(tasks)):
        d = by_idx[i]
        report.merge(d)
        c = d["c11"]
        g = groups.setdefault(c["group"], {"files": 0, "files_ge2_lines": 0, "files_with_cr": 0,
                                           "files_with_multibyte": 0, "static_objects": 0, "static_evaluations": 0,
                                           "history_explorations": 0, "history_states": 0, "history_transitions": 0,
                                           "max_lines": 0})
        g["files"] += 1
        g["files_ge2_lines"] += c["n"] >= 2
        g["files_with_cr"] += c["cr"]
        g["files_with_multibyte"] += c["mb"]
        g["static_objects"] += c["static_objects"]
        g["static_evaluations"] += c["static_evals"]
        g["history_explorations"] += c["hist"]["explorations"]
        g["history_states"] += c["hist"]["states"]
        g["history_transitions"] += c["hist"]["transitions"]
        g["max_lines"] = max(g["max_lines"], c["n"])
    for name in ("small", "boundary", "whitespace"):
        g = groups.get(name)
        if g is None:
            continue
        bounds = {"small": {"max_content_length": maxlen, "history_bounds": hist_bounds},
                  "boundary": {"line_bytes": [8191, 8192, 8193, 16385, 65535, 131071], "history_depth": bdepth},
                  "whitespace": {"chars": [repr(c) for c in WHITESPACE], "history_depth": 1}}[name]
        report.part(name, exhaustive=True, variants=len(VARIANTS), index_sources="built, list, file, all k-permutations of the lines, k<=%d" % MAXK[name],
                    history_initial_states="fresh object; object with an iterator that has delivered one line",
                    **bounds, **g)
    report.assume("UTF-8 is the text encoding of the buffered variants (run_check sets PYTHONUTF8=1)")
    report.assume("'lines longer than the I/O buffer' is decided at the buffer boundaries "
                  "(8191/8192/8193/16385 bytes, and 65535/131071 bytes for 1-byte characters), not for every length")


# ------------------------------------------------------------------------------------------ replay

def replay(rec):
    rp = rec["replay"]
    print(rec["what"])
    print("--- snippet ---")
    print(rp.get("snippet"))
    init = rp["init"]
    hist = list(init.get("prefix", ())) + list(rp["history"])
    init = {k: v for k, v in init.items() if k != "prefix"}
    scratch = "/dev/shm/verif-%d-c11-replay" % os.getpid()
    os.makedirs(scratch, exist_ok=True)
    bad = 0
    try:
        path = os.path.join(scratch, "f.txt")
        with open(path, "wb") as fh:
            fh.write(init["content"].encode("utf-8"))
        ref = ref_lines(init["content"])
        idxpath = os.path.join(scratch, "f.idx")
        with open(idxpath, "w") as fh:
            fh.write("".join("%d\n" % o for o in ref_offsets(ref)))
        spec = LineSpec(init, path, idxpath)
        impl, model = spec.build(init)
        try:
            for op in hist:
                try:
                    model = spec.step(impl, model, op)
                except Mismatch as m:
                    model = m.model2
                    bad += 1
                    print("MISMATCH %s: %s" % (m.kind, m.detail))
        finally:
            spec.cleanup(impl)
    finally:
        shutil.rmtree(scratch, ignore_errors=True)
    print("replayed %d operations, %d mismatches" % (len(hist), bad))
    return 1 if bad else 0
