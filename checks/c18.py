"""C18 -- one opened line / map file can be read from many forked processes at once.

Engine B (mc/xproc.py): real fork()ed processes under a pipe-driven scheduler; every interleaving of the
processes' open / close / seek / readline (and mmap) operations for 2 processes, preemption-bounded for 3+.
The file spans several I/O buffers (5 lines x 6 kB), otherwise the inherited user-space buffer would hide
the shared offset."""
import os
import shutil
import sys
import time

from mc import xproc
from mc.par import pmap, NPROC
from mc.xproc import XExplorer, ctx_fork

LINE = 6000
NLINES = 5


def make_file(d, cr=False):
    lines = [("%d" % i) * LINE for i in range(NLINES)]
    if cr:
        # carriage returns inside the lines and a CRLF ending on one of them: "\n" is the only line delimiter
        lines = [l[:7] + "\r" + l[8:3000] + "\r" + l[3001:] for l in lines]
        lines[1] = lines[1][:-1] + "\r"
    p = os.path.join(d, "big-cr.txt" if cr else "big.txt")
    with open(p, "w") as f:
        for l in lines:
            f.write(l + "\n")
    offs = [i * (LINE + 1) for i in range(NLINES)]
    return p, lines, offs


class Cfg:
    def __init__(self, name, variant, pre, reads, grandchild=None, cr=False, given_index=False):
        self.cr = cr                    # the file contains carriage returns
        self.given_index = given_index  # the line index is supplied by the caller (all lines, in order)
        self.name = name
        self.variant = variant          # text | mmap | map
        self.pre = list(pre)            # reads of the root before the fork (unscheduled)
        # proc index -> accesses: a line number (read it), "open" (call open() again, a no-op on an open object)
        # or "reenter" (leave and re-enter the object's context: close() + open())
        self.reads = {int(k): list(v) for k, v in reads.items()}
        self.grandchild = grandchild    # (parent index, child index) or None
        self.workers = len(self.reads)

    def describe(self):
        return {"name": self.name, "variant": self.variant, "pre": self.pre,
                "reads": {str(k): v for k, v in self.reads.items()}, "grandchild": self.grandchild, "cr": self.cr,
                "given_index": self.given_index}


def make_scenario(cfg, path, offs):
    def scenario(ctx):
        import windpyutils.files as F
        xproc.install_shadows(F)
        if cfg.variant == "text":
            f = F.RandomLineAccessFile(path, list(offs)) if cfg.given_index else F.RandomLineAccessFile(path)
        elif cfg.variant == "mmap":
            f = F.MemoryMappedRandomLineAccessFile(path, list(offs)) if cfg.given_index else F.MemoryMappedRandomLineAccessFile(path)
        else:
            f = F.MapAccessFile(path, {"k%d" % i: o for i, o in enumerate(offs)})

        g = None
        if any(isinstance(x, (list, tuple)) for v_ in cfg.reads.values() for x in v_):
            # a second object of the same class on the same file, opened in the parent as well
            if cfg.variant == "text":
                g = F.RandomLineAccessFile(path)
            elif cfg.variant == "mmap":
                g = F.MemoryMappedRandomLineAccessFile(path)
            else:
                g = F.MapAccessFile(path, {"k%d" % i: o for i, o in enumerate(offs)})
            g.open()

        def read(i):
            if isinstance(i, (list, tuple)):        # ("B", line): the same read on the second object
                return (g["k%d" % i[1]].rstrip("\n") if cfg.variant == "map" else g[i[1]])
            if i == "next":
                return next(itstate["it"])
            if i == "open":
                f.open()
                return "open"
            if i == "reenter":
                f.close()
                f.open()
                return "reenter"
            if cfg.variant == "map":
                return f["k%d" % i].rstrip("\n")
            return f[i]
        f.open()
        itstate = {"it": None, "pos": 0}
        pre = []
        for i in cfg.pre:
            if i == "iter2":
                # an iteration is started before the fork and has delivered two lines; every process then owns a
                # copy of it and continues it with "next"
                itstate["it"] = iter(f)
                pre.append(next(itstate["it"]))
                pre.append(next(itstate["it"]))
                itstate["pos"] = 2
            else:
                pre.append(read(i))
        ctx.idx = 0
        gc = cfg.grandchild

        def result_of(i):
            if i == "next":
                want = itstate["pos"]
                itstate["pos"] += 1
                return (want, _digest(read(i)))
            if isinstance(i, (list, tuple)):
                return (i[1], _digest(read(i)))
            return (i, _digest(read(i)))

        def proc_main(idx):
            res = []
            kids = []
            fork_at = (gc[2] if len(gc) > 2 else 1) if gc is not None else None
            if gc is not None and gc[0] == idx and fork_at == 0:
                kids = ctx_fork(ctx, [gc[1]], proc_main)       # forks before it has touched the file itself
            for n, i in enumerate(cfg.reads[idx]):
                if gc is not None and gc[0] == idx and n == fork_at and n > 0:
                    kids = ctx_fork(ctx, [gc[1]], proc_main)
                res.append(result_of(i))
            ctx.done(res)
            for k in kids:
                os.waitpid(k, 0)
        children = sorted(k for k in cfg.reads if k != 0 and not (gc is not None and gc[1] == k))
        pids = ctx_fork(ctx, children, proc_main)
        res = []
        for i in cfg.reads.get(0, []):
            res.append(result_of(i))
        ctx.done([("pre", [_digest(x) for x in pre])] + res)
        for p in pids:
            os.waitpid(p, 0)
    return scenario


def _digest(line):
    # a line is LINE copies of one digit: report (first char, length, all-same) instead of 6 kB
    if line in ("open", "reenter"):
        return line
    if not isinstance(line, str):
        return ("?", repr(line)[:40])
    import hashlib
    return (line[:1], len(line), hashlib.md5(line.encode("utf-8", "surrogatepass")).hexdigest()[:10])


EXP = {}        # cr flag -> expected digest per line (set by prepare_files)


def prepare_files(d):
    from windpyutils.files import MapAccessFile
    files = {}
    for cr in (False, True):
        path, lines, offs = make_file(d, cr)
        EXP[cr] = [_digest(l) for l in lines]
        # MapAccessFile returns "the line at the offset" as its own (text-mode) handle reads it; the property compares
        # with what a SINGLE process gets, so that is the reference for the map variant
        with MapAccessFile(path, {"k%d" % i: o for i, o in enumerate(offs)}) as mf:
            EXP[("map", cr)] = [_digest(mf["k%d" % i].rstrip("\n")) for i in range(len(offs))]
        files[cr] = (path, offs)
    return files


def expected(cfg, i):
    return EXP[("map", cfg.cr)][i] if cfg.variant == "map" else EXP[cfg.cr][i]


def judge(cfg, r):
    v = []
    for idx, res in sorted(r.value.items()):
        for item in res:
            if item[0] == "pre":
                exp_pre = []
                for k in cfg.pre:
                    exp_pre += [0, 1] if k == "iter2" else [k]
                for k, dg in zip(exp_pre, item[1]):
                    if dg != expected(cfg, k):
                        v.append(("C18", {"variant": cfg.variant, "kind": "wrong-line", "where": "before-fork"},
                                  "%s: unscheduled read before fork returned %r" % (cfg.name, dg), {}))
                continue
            i, dg = item
            if i in ("open", "reenter"):
                continue
            if dg != expected(cfg, i):
                who = "parent" if idx == 0 else "child"
                v.append(("C18", {"variant": cfg.variant, "kind": "wrong-line", "where": who},
                          "%s: process %d read line %d and got (first char, length, uniform)=%r, expected %r" % (
                              cfg.name, idx, i, dg, expected(cfg, i)), {}))
                break
    missing = set(cfg.reads) - set(r.value)
    if missing:
        v.append(("C18", {"variant": cfg.variant, "kind": "no-result"}, "%s: processes %r reported nothing" % (cfg.name, sorted(missing)), {}))
    return v


def plan_for(tier):
    q = tier == "quick"
    plan = []
    for variant in ("text", "mmap", "map"):
        # parent + 1 child, two reads each: ALL interleavings
        plan.append((Cfg("%s/2p" % variant, variant, [4], {0: [0, 2], 1: [3, 1]}), None))
        plan.append((Cfg("%s/2p-nopre" % variant, variant, [], {0: [1, 0], 1: [2, 4]}), None if not q else 3))
        # access patterns with a defensive open() / a re-entered context in one process
        plan.append((Cfg("%s/2p-child-opens" % variant, variant, [4], {0: [0, 2], 1: ["open", 3, 1]}), None if not q else 3))
        plan.append((Cfg("%s/2p-parent-opens" % variant, variant, [1], {0: ["open", 0, 2], 1: [3, 4]}), None if not q else 3))
        plan.append((Cfg("%s/2p-child-reenters" % variant, variant, [], {0: [2, 0], 1: [1, "reenter", 3]}), 2 if q else None))
        if variant != "map":
            # an iteration started before the fork is continued in the parent and in the child
            plan.append((Cfg("%s/2p-iteration-resumed" % variant, variant, ["iter2"], {0: ["next", 4], 1: ["next", "next"]}),
                         None if not q else 3))
            # the same over a caller-supplied index (iteration then goes through the indexed reads)
            plan.append((Cfg("%s/2p-iteration-given-index" % variant, variant, ["iter2"], {0: ["next", 4], 1: ["next", "next"]},
                             given_index=True), None if not q else 3))
        # the child's first read is the line right behind the one the parent read before the fork
        plan.append((Cfg("%s/2p-next-line" % variant, variant, [1], {0: [3, 0], 1: [2, 4]}), None if not q else 3))
        # a child that never touches the file forks a grandchild that does (parent reads concurrently)
        plan.append((Cfg("%s/idle-child-grandchild" % variant, variant, [2], {0: [0, 3], 1: [], 2: [4, 1]}, grandchild=(1, 2, 0)),
                     None if not q else 3))
        # a child that HAS read (and so owns a handle of its own) forks a grandchild; both then read concurrently
        plan.append((Cfg("%s/child-reads-then-forks" % variant, variant, [1], {0: [2], 1: [3, 4], 2: [0, 1]}, grandchild=(1, 2)),
                     2 if q else 3))
        # two objects opened in the parent, both used in the child (the second one after the first), the parent on the second
        plan.append((Cfg("%s/2p-two-objects" % variant, variant, [1], {0: [("B", 4), ("B", 0)], 1: [3, ("B", 2), ("B", 1)]}),
                     2 if q else None))
        # a file with carriage returns inside its lines (and one CRLF ending)
        plan.append((Cfg("%s/2p-carriage-returns" % variant, variant, [0], {0: [2, 1], 1: [1, 3]}, cr=True), None if not q else 3))
        # parent + 2 children
        plan.append((Cfg("%s/3p" % variant, variant, [2], {0: [0, 3], 1: [4, 1], 2: [1, 4]}), 2 if q else 3))
        if not q:
            plan.append((Cfg("%s/3p-3reads" % variant, variant, [0], {0: [1, 2, 3], 1: [4, 0, 2], 2: [3, 1, 0]}), 2))
            plan.append((Cfg("%s/grandchild" % variant, variant, [1], {0: [0, 2], 1: [3, 4], 2: [2, 0]}, grandchild=(1, 2)), 2))
    return plan


def explore_cfg(args):
    cfg, pbound, path, offs, max_execs, prefixes = args
    ex = XExplorer(make_scenario(cfg, path, offs), lambda r: judge(cfg, r), pbound,
                   observe=lambda r: tuple(sorted((k, tuple(map(tuple, [x for x in v_ if x[0] != "pre"]))) for k, v_ in r.value.items())),
                   max_execs=max_execs)
    ex.explore(prefixes)
    return ex.stats, ex.violations, ex.observations, ex.label_counts, ex.capped, ex.samples


def run(report, tier):
    d = "/dev/shm/verif-c18-%d" % os.getpid()
    os.makedirs(d, exist_ok=True)
    try:
        files = prepare_files(d)
        report.rule("one evaluation = one complete interleaving of the file operations (open/close/seek/readline, mmap "
                    "seek/readline) of really fork()ed processes sharing one opened line/map file object; every read of "
                    "every process is compared with the reference line; states = scheduling points, non-trivial = "
                    "interleavings with at least one switch between processes")
        for cfg, pbound in plan_for(tier):
            t0 = time.time()
            path, offs = files[cfg.cr]
            # partition: expand the root breadth-first, then fan the pending prefixes out
            root = XExplorer(make_scenario(cfg, path, offs), lambda r: judge(cfg, r), pbound)
            pending = root.frontier(NPROC * 4)
            tasks = [(cfg, pbound, path, offs, None, pending[i::NPROC * 2]) for i in range(NPROC * 2)]
            tasks = [t for t in tasks if t[5]]
            stats = dict(root.stats)
            viol = dict(root.violations)
            obs = dict(root.observations)
            labels = dict(root.label_counts)
            samples = list(root.samples)
            for st, vi, ob, lc, capped, smp in pmap(explore_cfg, tasks):
                for k, val in st.items():
                    stats[k] = max(stats[k], val) if k.startswith("max_") else stats[k] + val
                for key, val in vi.items():
                    if key in viol:
                        viol[key][2] += val[2]
                    else:
                        viol[key] = val
                for k, val in ob.items():
                    obs[k] = obs.get(k, 0) + val
                for k, val in lc.items():
                    labels[k] = labels.get(k, 0) + val
                samples.extend(smp[:1])
            for key, (item, rep, cnt) in viol.items():
                p, sig, what, extra = item
                report.violation(sig, what + " [%d preemptions]" % rep["cost"][0],
                                 {"engine": "xproc", "config": cfg.describe(), "choices": rep["choices"]})
                if cnt > 1:
                    report.add(extra_violating_executions=cnt - 1)
            report.part(cfg.name, states=stats["transitions"], transitions=stats["transitions"],
                        traces_validated_against_impl=stats["complete"], evaluations=stats["complete"],
                        preemption_bound=pbound, unbounded=pbound is None, exhaustive=True,
                        processes=len(cfg.reads), observations=len(obs), operation_labels=labels,
                        max_choice_points=stats["max_choice_points"], config=cfg.describe(),
                        wall_s=round(time.time() - t0, 2))
            report.nontrivial_n(max(0, stats["complete"] - 1))
            for smp in samples[:1]:
                report.sample({"driver": cfg.name, **smp})
    finally:
        shutil.rmtree(d, ignore_errors=True)
    report.assume("real fork() and real file descriptors; the scheduler orders only the announced file operations "
                  "(open/close/seek/readline/mmap), everything between two of them runs unscheduled")
    report.assume("5 lines x 6000 bytes: every line spans the 8 KiB I/O buffer boundary pattern so that a shared offset shows")


def replay(rec):
    rp = rec["replay"]
    c = rp["config"]
    cfg = Cfg(c["name"], c["variant"], c["pre"], c["reads"], tuple(c["grandchild"]) if c["grandchild"] else None,
              cr=c.get("cr", False), given_index=c.get("given_index", False))
    d = "/dev/shm/verif-c18-%d" % os.getpid()
    os.makedirs(d, exist_ok=True)
    try:
        path, offs = prepare_files(d)[cfg.cr]
        r = xproc.run_execution(make_scenario(cfg, path, offs), rp["choices"])
        print("\n".join(r.trace))
        bad = judge(cfg, r)
        for v in bad:
            print("VIOLATION", v[1], v[2])
        return 1 if bad else 0
    finally:
        shutil.rmtree(d, ignore_errors=True)
