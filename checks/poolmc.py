"""Drivers and oracles shared by C01-C04: the real own_proc_pools.py under the controlled scheduler.

A *config* describes one driver (pool kind, workers, quota, queue bounds, call list, faults).  Every
execution is judged by all four oracles; each check reports only its own property's violations."""
import math
import os
import re
import time

from mc import vmp, vsched
from mc.par import pmap, NPROC, pin_self
from mc.vsched import Explorer, Op, cur

SRC = "windpyutils/parallel/own_proc_pools.py"


class Log:
    """harness log shared by all fork copies; every entry carries the task and its vector clock"""

    def __init__(self):
        self.entries = []

    def __deepcopy__(self, memo):
        return self

    def add(self, wid, kind, x=None):
        s = vsched._CUR
        if s is None or s.aborting:
            return
        t = s.current
        self.entries.append((t.lname, t.idx, wid, kind, x, dict(t.vc), t.vc.get(t.idx, 0)))


class Fault(Exception):
    pass


class FaultExit(SystemExit):
    """an exception that is not an Exception (what sys.exit() or an interrupt inside a functor raises)"""


def f(x):
    if x is None:
        return ("w", None)
    return 2 * x + 1


def input_of(ikind, data):
    """list (also for 'vals'), lazily producing iterable with a scheduling point per item, one-shot iterator, or a
    Sequence that cannot be sliced"""
    if ikind == "lazy":
        return vmp.LazyInput(data)
    if ikind == "iter":
        return iter(data)
    if ikind == "deque":
        import collections
        return collections.deque(data)
    return data


def quota_of(cfg, i):
    """chunks the i-th worker of a plain pool may process (one number for all, or a list with one entry per worker)"""
    q = cfg.quota[i] if isinstance(cfg.quota, (list, tuple)) else cfg.quota
    return math.inf if q is None else q


def call_input(k, n, ikind="list"):
    if ikind == "vals":
        # items a pool must treat like any other: 0 (falsy) first, None (also the pools' own stop token) at odd positions
        return [0 if j == 0 else (None if j % 2 else 100 * (k + 1) + j) for j in range(n)]
    return [100 * (k + 1) + j for j in range(n)]


class Config:
    def __init__(self, name, kind="functor", workers=1, quota=None, wq=1.0, rq=None, calls=(),
                 until_all_ready=False, fault=None, family=None, required=(), delayed_put=False,
                 precreate=False, wid_offset=0, second_pool=False, zipped=False, join_timeout=None):
        self.name = name
        self.join_timeout = join_timeout  # pool option; with it, workers may legitimately outlive the context (not judged)
        self.kind = kind                  # functor | factory
        self.workers = workers
        self.quota = quota                # chunks per worker (factory)
        self.wq = wq
        self.rq = rq
        self.calls = list(calls)          # (mode, input kind, n, chunk size)
        self.until_all_ready = until_all_ready
        self.fault = fault                # None | ("begin", worker index) | ("item", j)  j-th item seen overall
        self.family = family or name
        self.required = list(required)    # regexes on source lines that some execution must reach
        self.zipped = zipped              # calls 0 (pool) and 1 (second pool) are consumed alternately, like zip(a, b)
        self.second_pool = second_pool    # a second pool of the same class is alive and makes the odd-numbered calls
        self.wid_offset = wid_offset      # the pool has handed out this many worker ids before (long-lived pool)
        self.precreate = precreate        # all generators are created first, then consumed one after the other
        self.delayed_put = delayed_put    # explore late delivery of multiprocessing.Queue puts (needs an env budget)

    def describe(self):
        return {"name": self.name, "pool": self.kind, "workers": self.workers, "quota": self.quota,
                "work_queue_maxsize": self.wq, "results_queue_maxsize": self.rq, "calls": self.calls,
                "until_all_ready": self.until_all_ready, "fault": self.fault, "delayed_put": self.delayed_put,
                "precreate": self.precreate, "wid_offset": self.wid_offset, "second_pool": self.second_pool,
                "zipped": self.zipped, "join_timeout": self.join_timeout}


def make_driver(cfg):
    def driver(s):
        s.user["delayed_put"] = cfg.delayed_put
        M = vmp.load(SRC, "windpyutils.parallel.own_proc_pools")
        log = Log()
        out = {"calls": [], "entered": False, "exited": False, "log": log, "ready_returned": None}
        s.user["out"] = out
        counter = {"items": 0, "created": 0}
        fault = cfg.fault

        class W(M.FunctorWorker):
            def __init__(self, quota=math.inf):
                super().__init__(quota)
                self.log = log
                self.cidx = counter["created"]
                counter["created"] += 1

            def __call__(self, x):
                self.log.add(self.wid, "item", x)
                if fault is not None and fault[0] == "item":
                    # processes do not share the counter: use the item value itself
                    if x == fault[1]:
                        raise (FaultExit if fault[2:] == ("exit",) else Fault)("functor fault at %r" % (x,))
                return f(x)

            def begin(self):
                self.log.add(self.wid, "begin", self.max_chunks_per_worker)        # the quota this worker starts with
                if fault is not None and fault[0] == "begin" and self.cidx == fault[1]:
                    raise (FaultExit if fault[2:] == ("exit",) else Fault)("begin fault")
                self.log.add(self.wid, "begin-done")

            def end(self):
                self.log.add(self.wid, "end")

        class Factory(M.FunctorWorkerFactory):
            def create(self):
                return W(quota_of(cfg, 0))

        if cfg.kind == "functor":
            class Pool(vmp.Monitored, M.FunctorPool):
                pass
            pool = Pool([W(quota_of(cfg, i)) for i in range(cfg.workers)],
                        work_queue_maxsize=cfg.wq, results_queue_maxsize=cfg.rq, join_timeout=cfg.join_timeout)
        else:
            class Pool(vmp.Monitored, M.FactoryFunctorPool):
                pass
            pool = Pool(cfg.workers, Factory(), work_queue_maxsize=cfg.wq, results_queue_maxsize=cfg.rq, join_timeout=cfg.join_timeout)
        out["pool"] = pool
        pool2 = None
        if cfg.second_pool:
            # pools are independent objects: a second one, alive at the same time, serves every other call
            if cfg.kind == "functor":
                pool2 = Pool([W(quota_of(cfg, i)) for i in range(cfg.workers)],
                             work_queue_maxsize=cfg.wq, results_queue_maxsize=cfg.rq, join_timeout=cfg.join_timeout)
            else:
                pool2 = Pool(cfg.workers, Factory(), work_queue_maxsize=cfg.wq, results_queue_maxsize=cfg.rq, join_timeout=cfg.join_timeout)
        if cfg.wid_offset and hasattr(pool, "_wid_counter"):
            # as if many workers had been created (and replaced) on this pool before: ids beyond the small-int cache
            object.__setattr__(pool, "_wid_counter", object.__getattribute__(pool, "_wid_counter") + cfg.wid_offset)
        import contextlib
        with pool, (pool2 if pool2 is not None else contextlib.nullcontext()):
            out["entered"] = True
            def wait_ready():
                procs = list(object.__getattribute__(pool, "procs"))
                pool.until_all_ready()
                log.add(None, "ready-returned", [p.wid for p in procs])
            if cfg.until_all_ready and cfg.until_all_ready != "mid":
                wait_ready()
            pre = {}
            if cfg.precreate:
                for k, call in enumerate(cfg.calls):
                    mode, ikind, n, cs = call[:4]
                    data = call_input(k, n, ikind)
                    inp = input_of(ikind, data)
                    pre[k] = pool.imap(inp, cs) if mode == "imap" else pool.imap_unordered(inp, cs)
            if cfg.zipped:
                # two calls, one on each pool, whose results are taken alternately (zip(a.imap(x), b.imap(y)))
                gens, recs = [], []
                for k, call in enumerate(cfg.calls[:2]):
                    mode, ikind, n, cs = call[:4]
                    data = call_input(k, n, ikind)
                    rec = {"mode": mode, "data": data, "cs": cs, "yielded": [], "finished": False, "leftover": None}
                    out["calls"].append(rec)
                    recs.append(rec)
                    p_ = pool2 if k == 1 else pool
                    gens.append(p_.imap(data, cs) if mode == "imap" else p_.imap_unordered(data, cs))
                live = [0, 1]
                while live:
                    for k in list(live):
                        try:
                            recs[k]["yielded"].append(next(gens[k]))
                        except StopIteration:
                            recs[k]["finished"] = True
                            live.remove(k)
                for rec in recs:
                    rec["leftover"] = payload_items(s)
            pending_close = []
            for k, call in enumerate(cfg.calls if not cfg.zipped else []):
                mode, ikind, n, cs = call[:4]
                exact = len(call) > 4 and call[4] == "exact"
                if cfg.until_all_ready == "each" and k > 0:
                    wait_ready()
                data = call_input(k, n, ikind)
                rec = {"mode": mode, "data": data, "cs": cs, "yielded": [], "finished": False, "leftover": None}
                out["calls"].append(rec)
                inp = input_of(ikind, data)
                the_pool = pool2 if (pool2 is not None and k % 2 == 1) else pool
                gen = pre[k] if k in pre else (the_pool.imap(inp, cs) if mode == "imap" else the_pool.imap_unordered(inp, cs))
                late = len(call) > 4 and call[4] == "exact-late-close"
                if exact or late:
                    # the consumer takes exactly len(data) results (zip / islice style) and closes the generator at
                    # its last yield instead of driving it to StopIteration
                    for _ in range(n):
                        rec["yielded"].append(next(gen))
                    if late:
                        # ... but only later: the generator stays suspended and is closed (garbage-collected, say)
                        # in the middle of the NEXT call, right after that call's first result
                        pending_close.append(gen)
                    else:
                        gen.close()
                else:
                    for v in gen:
                        rec["yielded"].append(v)
                        while pending_close:
                            pending_close.pop().close()
                        if cfg.until_all_ready == "mid":
                            # between two results of a running call: retired workers are being replaced right now
                            wait_ready()
                    while pending_close:
                        pending_close.pop().close()
                rec["finished"] = True
                rec["leftover"] = payload_items(s)
            if cfg.until_all_ready == "each":
                wait_ready()
        out["exited"] = True
        # every process ever started (replaced workers included) must have ended, and its end must happen-before
        # this point (i.e. somebody joined it): otherwise a schedule exists in which it is still running now
        me = s.current
        unjoined = []
        for t in s.tasks:
            if t.is_process and (t.state != "done" or me.vc.get(t.idx, 0) < t.vc.get(t.idx, 0)):
                unjoined.append((t.role, ".".join(map(str, t.lname)), t.state))
        out["unjoined"] = unjoined
        return out
    return driver


def payload_items(s):
    """result chunks sitting in any queue: (index, list) pairs whose list holds outputs of f"""
    left = []
    for q in s.queues:
        for it in q._items:
            if isinstance(it, tuple) and len(it) == 2 and isinstance(it[1], list) and it[1] \
                    and all((isinstance(v, int) and v % 2 == 1) or v == ("w", None) for v in it[1]):
                left.append((q.kind, it[0], tuple(it[1])))
    return left


# ---------------------------------------------------------------------------------------------------
# oracles
# ---------------------------------------------------------------------------------------------------

def classify_output(rec):
    """None if rec['yielded'] is what the call must yield, else a class string"""
    data, cs, mode = rec["data"], rec["cs"], rec["mode"]
    exp = [f(x) for x in data]
    got = rec["yielded"]
    if rec["finished"]:
        if mode == "imap":
            if got == exp:
                return None
        else:
            if sorted(got) == sorted(exp):
                # order inside each chunk must be kept
                pos = {v: i for i, v in enumerate(got)}
                ok = True
                for c in range(0, len(exp), cs):
                    ch = exp[c:c + cs]
                    if any(pos[ch[i]] > pos[ch[i + 1]] for i in range(len(ch) - 1)):
                        ok = False
                if ok:
                    return None
                return "reordered-inside-chunk"
    else:
        # a call that did not finish is judged on what it yielded so far
        if mode == "imap":
            if got == exp[:len(got)]:
                return None
        else:
            if len(set(got)) == len(got) and set(got) <= set(exp):
                return None
    foreign = [v for v in got if v not in exp]
    if foreign:
        return "foreign"
    if len(set(got)) != len(got):
        return "duplicated"
    if not got and exp:
        return "missing-all"
    if set(got) != set(exp):
        return "missing-some"
    return "reordered"


def blocked_sig(blocked):
    return "|".join(sorted("%s:%s/%s" % (b["role"], b["op"], b["function"]) for b in blocked))


def judge(cfg, r):
    """-> list of (property, signature, what, extra)"""
    out = r.user.get("out")
    v = []
    fam = cfg.family
    if out is None:
        return [("C01", {"family": fam, "kind": "no-output"}, "driver produced nothing", {})]
    calls = out["calls"]
    faulty = cfg.fault is not None
    # ---- termination -----------------------------------------------------------------------------
    if r.outcome in ("deadlock", "livelock"):
        bs = blocked_sig(r.blocked)
        main_blocked = any(b["role"] == "main" for b in r.blocked)
        finished_tasks = sorted(t[0] for t in r.tasks if t[0] != "main" and not any(
            b["task"] == t[1] for b in r.blocked))
        if main_blocked:
            ncall = len(calls)
            in_call = bool(calls) and not calls[-1]["finished"]
            workers_alive = any(b["role"] == "W" for b in r.blocked)
            replace_alive = any(b["role"] == "ReplaceWorkerThread" for b in r.blocked)
            sig = {"family": fam, "kind": r.outcome, "blocked": bs, "in_call": ncall if in_call else 0}
            what = "%s: %s in call %d: blocked %s; finished: %s" % (cfg.name, r.outcome, ncall, bs, ",".join(finished_tasks))
            if "__exit__" in bs and any(b["role"] == "W" for b in r.blocked):
                # main is stuck inside the pool's __exit__ while a worker waits for work: that worker never reaches end()
                v.append(("C04", {"family": fam, "kind": "exit-blocked", "blocked": bs},
                          "%s: the pool context cannot be left, a worker never finishes (no end()): %s" % (cfg.name, bs),
                          {"blocked": r.blocked}))
            if not faulty:
                v.append(("C02", sig, what, {"blocked": r.blocked}))
                if ncall > 1 or (cfg.kind == "factory"):
                    starved = in_call and not workers_alive and not replace_alive
                    sig3 = dict(sig, kind="starved" if starved else r.outcome)
                    v.append(("C03", sig3, what + ("; pool ran out of workers" if starved else ""), {"blocked": r.blocked}))
        elif cfg.join_timeout is None:
            # main left the pool context but something is still running / blocked
            sig = {"family": fam, "kind": "left-running", "blocked": bs}
            v.append(("C04", sig, "%s: after the pool context was left: %s" % (cfg.name, bs), {"blocked": r.blocked}))
    if out.get("unjoined") and cfg.join_timeout is None:
        sig = {"family": fam, "kind": "not-joined"}
        v.append(("C04", sig, "%s: the pool context was left although worker process(es) %s had not been joined "
                  "(not finished, or finished without anybody waiting for them)" % (
                      cfg.name, ", ".join("%s[%s]" % (x[0], x[1]) for x in out["unjoined"])), {}))
    # ---- results ---------------------------------------------------------------------------------
    if not faulty:
        for k, rec in enumerate(calls):
            cls = classify_output(rec)
            if cls is not None:
                sig = {"family": fam, "kind": "wrong-output", "class": cls, "call": k, "mode": rec["mode"]}
                what = "%s: call %d %s(%r, cs=%d) yielded %r, expected %r" % (
                    cfg.name, k, rec["mode"], rec["data"], rec["cs"], rec["yielded"], [f(x) for x in rec["data"]])
                v.append(("C01", sig, what, {}))       # the statement holds for every fully consumed call
                if len(calls) > 1:
                    v.append(("C03", sig, what, {}))
            if rec["finished"] and rec["leftover"]:
                sig = {"family": fam, "kind": "leftover", "call": k}
                what = "%s: after call %d result chunks are still queued: %r" % (cfg.name, k, rec["leftover"])
                v.append(("C01" if len(calls) == 1 else "C03", sig, what, {}))
        if r.outcome == "done":
            left = payload_items(r)
            if left and not any(rec["leftover"] for rec in calls if rec["finished"]):
                sig = {"family": fam, "kind": "leftover", "call": "end"}
                v.append(("C01" if len(calls) == 1 else "C03", sig,
                          "%s: result chunks left in a queue at the end: %r" % (cfg.name, left), {}))
    # ---- thread / process exceptions --------------------------------------------------------------
    for role, task, ename, msg, tb in r.exceptions:
        if ename in ("Fault", "FaultExit"):
            continue
        if faulty and role == "W":
            continue
        if cfg.join_timeout is not None and role == "W" and ename == "BrokenPipeError":
            continue        # a worker that outlived the context (allowed with join_timeout) finds the manager gone
        sig = {"family": fam, "kind": "thread-exception", "role": role, "exc": ename}
        what = "%s: %s died with %s: %s" % (cfg.name, role, ename, msg)
        prop = "C04" if role == "W" else ("C03" if (len(calls) > 1 or role == "ReplaceWorkerThread") else "C01")
        v.append((prop, sig, what, {"traceback": tb}))
        if role == "main" and prop != "C01":
            v.append(("C01", sig, what, {"traceback": tb}))
    # ---- lifecycle -------------------------------------------------------------------------------
    v.extend(judge_lifecycle(cfg, r, out))
    return v


def judge_lifecycle(cfg, r, out):
    v = []
    fam = cfg.family
    log = out["log"].entries
    blocked_tasks = {b["task"] for b in r.blocked} | {b["task"] for b in r.leftover_daemons}
    by_task = {}
    for e in log:
        if e[3] in ("begin", "begin-done", "item", "end"):
            by_task.setdefault(e[0], []).append(e)
    for lname, evs in by_task.items():
        tname = ".".join(map(str, lname))
        kinds = [e[3] for e in evs]
        terminated = tname not in blocked_tasks and (r.outcome == "done" or tname not in blocked_tasks)
        seq = "".join({"begin": "B", "begin-done": "b", "item": "i", "end": "E"}[k] for k in kinds)
        pat = r"B(b(i)*)?E" if terminated else r"B(b(i)*)?E?"
        if r.outcome in ("deadlock", "livelock") and tname in blocked_tasks:
            pat = r"B(b(i)*)?"
        if not re.fullmatch(pat, seq):
            sig = {"family": fam, "kind": "lifecycle", "seq": re.sub(r"i+", "i", seq)}
            v.append(("C04", sig, "%s: worker %s (wid %r) event order %s (B begin, b begin returned, i item, E end)" % (
                cfg.name, tname, evs[0][2], seq), {}))
        quota = evs[0][4] if evs[0][3] == "begin" and evs[0][4] is not None else math.inf
        if quota != math.inf:
            chunks = set()
            for e in evs:
                if e[3] == "item" and isinstance(e[4], int) and e[4] >= 100:
                    k = e[4] // 100 - 1
                    j = e[4] % 100
                    cs = cfg.calls[k][3] if 0 <= k < len(cfg.calls) else 1
                    chunks.add((k, j // cs))
            if len(chunks) > quota:
                sig = {"family": fam, "kind": "quota"}
                v.append(("C04", sig, "%s: worker %s processed %d chunks with quota %d" % (
                    cfg.name, tname, len(chunks), quota), {}))
    if cfg.until_all_ready:
        for e in log:
            if e[3] == "ready-returned":
                vc = e[5]
                started = {x[2]: x for x in log if x[3] == "begin-done"}
                for wid in e[4]:
                    b = started.get(wid)
                    if b is None or not (vc.get(b[1], 0) > b[6]):
                        sig = {"family": fam, "kind": "until_all_ready"}
                        v.append(("C04", sig, "%s: until_all_ready() returned although begin() of worker %r had not "
                                  "completed (happens-before)" % (cfg.name, wid), {}))
                        break
    return v


def observation(cfg, r):
    out = r.user.get("out") or {"calls": []}
    return (r.outcome, tuple((tuple(c["yielded"]), c["finished"]) for c in out["calls"]),
            blocked_sig(r.blocked) if r.blocked else "")


# ---------------------------------------------------------------------------------------------------
# exploration of one driver: racy-set fixpoint, iterated bound, fan-out
# ---------------------------------------------------------------------------------------------------

class Kit:
    """what a family of drivers provides to the generic exploration loop"""

    def __init__(self, make_driver, judge, observation, src):
        self.make_driver = make_driver
        self.judge = judge
        self.observation = observation
        self.src = src if isinstance(src, (list, tuple)) else [src]


def explore_config(cfg, pbound, ebound=0, want_frontier=None, max_execs=None, use_cache=True, parallel=True,
                   budget_s=None, kit=None):
    """-> (merged Explorer, racy set, wall seconds)"""
    kit = kit or POOL_KIT
    driver = kit.make_driver(cfg)
    judge = kit.judge
    observation = kit.observation
    pin_self()
    racy = set()
    t0 = time.time()
    restarts = 0
    while True:
        ex = Explorer(driver, lambda r: judge(cfg, r), pbound, ebound, use_cache=use_cache, racy=racy,
                      observe=lambda r: observation(cfg, r), max_execs=max_execs)
        if parallel and NPROC > 1:
            def mk():
                return Explorer(driver, lambda r: judge(cfg, r), pbound, ebound, use_cache=use_cache, racy=racy,
                                observe=lambda r: observation(cfg, r),
                                max_execs=None if max_execs is None else max(1, max_execs // NPROC))
            ex = vsched.explore_parallel(mk, NPROC if isinstance(parallel, bool) else parallel)
        else:
            ex.explore()
        if ex.racy_grew:
            racy = set(ex.racy)
            restarts += 1
            if restarts > 20:
                raise vsched.HarnessError("racy set does not reach a fixpoint: %r" % (racy,))
            continue
        break
    return ex, racy, time.time() - t0


def required_unreached(cfg, kit):
    """source patterns the driver declares it must reach, present in the source but never executed"""
    missing = []
    for pat in cfg.required:
        found = reached = False
        for src in kit.src:
            lines = vmp.source_lines(src)
            path = vmp.source_path(src)
            nos = [i + 1 for i, l in enumerate(lines) if re.search(pat, l)]
            if nos:
                found = True
                if any((path, n) in vmp.COVERED for n in nos):
                    reached = True
        if found and not reached:
            missing.append(pat)
    return missing


POOL_KIT = Kit(make_driver, judge, observation, SRC)


def run_pool_check(report, prop, plan, kit=None, what="own_proc_pools.py", grid=None):
    kit = kit or POOL_KIT
    """plan: list of (Config, preemption bound or None, env bound, max_execs or None)"""
    report.rule("one evaluation = one complete schedule (maximal execution) of a driver over the real "
                + what + " under the controlled scheduler, judged by the oracle of this property; states = "
                "distinct happens-before fingerprints at choice points; non-trivial = distinct terminal observations "
                "(outcome, values yielded per call, blocked set) summed over drivers")
    report.assume("virtual threading/multiprocessing layer conforms to the real one (conformance/primitives.py)")
    report.assume("multiprocessing.Queue / manager queue hand-off is modelled as synchronous; pickling is not modelled")
    report.assume("fork-like process start (deep copy of the process object, shared virtual primitives by reference)")
    for entry in plan:
        _run_entry(report, prop, entry, kit, True)
    if grid:
        # many small configurations: one sequential (fully deterministic) explorer per configuration, fanned out
        from mc.report import Report

        def work(entry):
            sub = Report(prop, collect_only=True)
            _run_entry(sub, prop, entry, kit, False)
            return sub.dump()
        for d in pmap(work, grid):
            report.merge(d)


def _run_entry(report, prop, entry, kit, parallel):
    cfg, pbound, ebound, max_execs = entry
    if True:
        vmp.COVERED.clear()
        bounds = [0] + ([pbound] if pbound != 0 else []) if pbound is not None else [None]
        if pbound is not None and pbound >= 2:
            bounds = [0, 1, pbound] if pbound > 1 else bounds
        total = {"executions": 0, "complete": 0, "cut": 0, "hb_states": 0, "transitions": 0, "deadlocks": 0,
                 "livelocks": 0}
        last = None
        t0 = time.time()
        for b in bounds:
            ex, racy, wall = explore_config(cfg, b, ebound, max_execs=max_execs, kit=kit, parallel=parallel)
            last = ex
            for key, (item, rep, cnt) in ex.violations.items():
                p, sig, what, extra = item
                if p != prop:
                    continue
                replay = {"engine": "vsched", "config": cfg.describe(), "choices": rep["choices"],
                          "preemptions": rep["cost"][0], "env_deviations": rep["cost"][1], "bound": b,
                          "racy": sorted(map(list, racy)), "detail": extra}
                # a failing schedule must fail identically when replayed: run it twice and compare the traces
                traces = []
                for _ in range(2):
                    sr = vsched.Scheduler(rep["choices"], None, None, racy, record_trace=True)
                    rr = sr.run(kit.make_driver(cfg))
                    traces.append((rr.trace, rr.outcome, [x[:2] for x in kit.judge(cfg, rr) if x[0] == prop]))
                if traces[0] != traces[1] or not traces[0][2]:
                    report.harness_error("violation of %s in %s does not replay deterministically (choices %r)" % (
                        prop, cfg.name, rep["choices"]))
                    continue
                replay["trace"] = traces[0][0][-60:]
                report.violation(sig, what + " [%d preemptions]" % rep["cost"][0], replay)
                if cnt > 1:
                    report.add(extra_violating_executions=cnt - 1)
            if b == bounds[-1]:
                for k in total:
                    total[k] = ex.stats[k]
        ex = last
        other = {}
        for key, (item, rep, cnt) in ex.violations.items():
            if item[0] != prop:
                other[item[0]] = other.get(item[0], 0) + cnt
        missing = required_unreached(cfg, kit)
        report.part(cfg.name, states=max(1, total["hb_states"]), transitions=total["transitions"],
                    traces_validated_against_impl=total["complete"], evaluations=total["complete"],
                    executions=total["executions"], cut_by_hb_cache=total["cut"],
                    preemption_bound=pbound, env_deviation_bound=ebound, bounds_iterated=bounds,
                    exhaustive=(not ex.capped), unbounded=(pbound is None), capped_at=max_execs if ex.capped else None,
                    deadlocks=total["deadlocks"], livelocks=total["livelocks"],
                    observations=len(ex.observations), racy_set=sorted(a for (_, a) in racy),
                    max_choice_points=ex.stats["max_choice_points"], max_tasks=ex.stats["max_tasks"],
                    config=cfg.describe(), violations_of_other_properties=other,
                    operation_labels=dict(sorted(ex.label_counts.items())),
                    unreached_required=missing, harness_retries=ex.stats.get("harness_retries", 0),
                    wall_s=round(time.time() - t0, 2))
        for o in ex.observations:
            report.nontrivial((cfg.name, o))
        for smp in ex.samples[:2]:
            report.sample({"driver": cfg.name, **smp})
        if len(ex.observations) <= 1 and total["complete"] > 50 and getattr(cfg, "workers", 1) > 1:
            report.add(possibly_vacuous_drivers=1)


def replay_pool(rec):
    """re-executes exactly the recorded schedule once and prints the operation trace"""
    rp = rec["replay"]
    c = rp["config"]
    cfg = Config(c["name"], kind=c["pool"], workers=c["workers"], quota=c["quota"], wq=c["work_queue_maxsize"],
                 rq=c["results_queue_maxsize"], calls=[tuple(x) for x in c["calls"]],
                 until_all_ready=c["until_all_ready"], fault=tuple(c["fault"]) if c["fault"] else None,
                 delayed_put=c.get("delayed_put", False), precreate=c.get("precreate", False),
                 wid_offset=c.get("wid_offset", 0), second_pool=c.get("second_pool", False),
                 zipped=c.get("zipped", False), join_timeout=c.get("join_timeout"))
    pin_self()
    racy = {(tuple(a), b) for a, b in rp["racy"]}
    outs = []
    for _ in range(2):
        s = vsched.Scheduler(rp["choices"], None, None, racy, record_trace=True)
        r = s.run(make_driver(cfg))
        outs.append(r)
    if outs[0].trace != outs[1].trace:
        print("HARNESS-ERROR: the recorded schedule does not replay deterministically")
        return 2
    r = outs[0]
    print("\n".join(r.trace))
    print("outcome:", r.outcome, "blocked:", r.blocked)
    out = r.user.get("out") or {}
    for k, cl in enumerate(out.get("calls", [])):
        print("call", k, cl["mode"], cl["data"], "cs", cl["cs"], "->", cl["yielded"], "finished" if cl["finished"] else "NOT finished")
    bad = [v for v in judge(cfg, r) if v[0] == rec["property"]]
    for v in bad:
        print("VIOLATION", v[0], v[1], v[2])
    return 1 if bad else 0
