"""C02 -- imap / imap_unordered always terminate on finite input (no deadlock, no livelock)."""
from checks import pool_plans as P
from checks.poolmc import run_pool_check, replay_pool


def run(report, tier):
    grid = None
    if tier == "quick":
        plan = [(P.P1(), None, 0, None), (P.L1(), None, 0, None), (P.E0(), 2, 0, None), (P.L2(), 2, 0, None),
                (P.P4(), 2, 0, None), (P.P9(), 1, 0, None), (P.P11(), 2, 0, None), (P.E2(), 2, 0, None),
                (P.P3(), 1, 0, None), (P.P8(), 1, 0, None), (P.P2(), 2, 0, None), (P.P5(), 1, 0, None),
                (P.P6(), 2, 0, None), (P.P5w(), 1, 0, None), (P.Q1(), 1, 0, None)]
    else:
        plan = [(P.P1(), None, 0, None), (P.L1(), None, 0, None), (P.E0(), None, 0, None), (P.L2(), 3, 0, None),
                (P.P4(), None, 0, None), (P.P9(), 2, 0, None), (P.P11(), None, 0, None), (P.E2(), None, 0, None),
                (P.P3(), 2, 0, None), (P.P8(), 2, 0, None), (P.P2(), 3, 0, None), (P.P5(), 2, 0, None),
                (P.P6(), 2, 0, None), (P.P7(), 2, 0, None), (P.P5w(), 2, 0, None), (P.Q1(), 2, 0, None)]
        grid = [(c, 2, 0, 60000) for c in P.grid() if c.calls[0][1] == "lazy" or c.rq is not None]
    run_pool_check(report, "C02", plan, grid=grid)


def replay(rec):
    return replay_pool(rec)
