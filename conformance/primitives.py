"""Differential conformance of the virtual concurrency layer (mc/vmp.py) with the real primitives:
every sequence of non-blocking operations up to a depth is run on the virtual object (inside a
single-task execution) and on the real threading / queue / multiprocessing object; the observation
sequences must be identical.  A mismatch is a HARNESS error (exit 2), never a property verdict."""
import itertools
import multiprocessing
import queue
import threading

from mc import vmp
from mc.vsched import Scheduler


def obs(fn):
    try:
        return ("ok", fn())
    except queue.Full:
        return ("Full",)
    except queue.Empty:
        return ("Empty",)
    except Exception:   # noqa  (class of misuse errors differs between threading and multiprocessing: only 'raised')
        return ("raised",)


def queue_ops(q, seq):
    out = []
    n = 0
    for op in seq:
        if op == "put":
            n += 1
            out.append(obs(lambda: q.put(n, block=False)))
        elif op == "get":
            out.append(obs(lambda: q.get(block=False)))
        elif op == "put_t":
            n += 1
            out.append(obs(lambda: q.put(n, True, 0.001)))
        elif op == "get_t":
            out.append(obs(lambda: q.get(True, 0.001)))
        else:
            out.append(obs(getattr(q, op)))
    return out


def event_ops(e, seq):
    return [obs((lambda: e.wait(0.001)) if op == "wait_t" else getattr(e, op)) for op in seq]


def lock_ops(l, seq):
    out = []
    for op in seq:
        if op == "try":
            out.append(obs(lambda: l.acquire(False)))
        elif op == "rel":
            out.append(obs(l.release))
        elif op == "acq_t":
            out.append(obs(lambda: l.acquire(True, 0.001)))
        elif op == "with":
            def w():
                if not l.acquire(False):          # a blocking `with` on a held non-reentrant lock would hang
                    return "busy"
                l.release()
                with l:
                    return "in"
            out.append(obs(w))
    return out


def list_ops(l, seq):
    out = []
    n = 0
    for op in seq:
        n += 1
        if op == "append":
            out.append(obs(lambda: l.append(n)))
        elif op == "extendN":
            out.append(obs(lambda: l.extend([None] * 2)))
        elif op == "len":
            out.append(obs(lambda: len(l)))
        elif op == "get0":
            out.append(obs(lambda: l[0]))
        elif op == "get-1":
            out.append(obs(lambda: l[-1]))
        elif op == "set1":
            out.append(obs(lambda: l.__setitem__(1, (n, n))))
        elif op == "clear":
            out.append(obs(lambda: l.__setitem__(slice(None), [])))
        elif op == "iter":
            out.append(obs(lambda: [x for x in l]))
        elif op == "in":
            out.append(obs(lambda: None in l))
    return out


def value_ops(v, seq):
    out = []
    for op in seq:
        if op == "get":
            out.append(obs(lambda: v.value))
        elif op == "inc":
            def inc():
                v.value += 1
            out.append(obs(inc))
        elif op == "set0":
            def s0():
                v.value = 0
            out.append(obs(s0))
    return out


def run_conformance(report, depth=4, with_manager=True):
    mismatches = []
    n_seq = [0]

    def compare(name, alphabet, d, mk_virtual, mk_real, runner):
        for k in range(1, d + 1):
            for seq in itertools.product(alphabet, repeat=k):
                holder = {}

                def drv(s):
                    holder["v"] = runner(mk_virtual(), seq)
                Scheduler().run(drv)
                r = runner(mk_real(), seq)
                n_seq[0] += 1
                if holder.get("v") != r:
                    mismatches.append((name, seq, holder.get("v"), r))

    for cap in (0, 1, 2):
        compare("Queue(%d)" % cap, ["put", "get", "qsize", "empty", "full"], depth,
                lambda: vmp.VQueue(cap), lambda: queue.Queue(cap), queue_ops)
    compare("Queue(1)/timeouts", ["put", "get", "put_t", "get_t"], 3, lambda: vmp.VQueue(1), lambda: queue.Queue(1), queue_ops)
    compare("Event", ["set", "clear", "is_set", "wait_t"], depth, vmp.Event, threading.Event, event_ops)
    compare("Lock", ["try", "rel", "with", "acq_t"], depth, vmp.Lock, threading.Lock, lock_ops)
    compare("RLock", ["try", "rel", "with", "acq_t"], depth + 1, vmp.RLock, threading.RLock, lock_ops)
    compare("mp.Lock", ["try", "rel", "with", "acq_t"], 3, vmp.Lock, multiprocessing.Lock, lock_ops)
    compare("mp.RLock", ["try", "rel", "with", "acq_t"], 4, vmp.RLock, multiprocessing.RLock, lock_ops)
    compare("Value", ["get", "inc", "set0"], depth, lambda: vmp.Value("i", 0), lambda: multiprocessing.Value("i", 0), value_ops)
    compare("list", ["append", "extendN", "len", "get0", "get-1", "set1", "clear", "iter", "in"], 3,
            lambda: vmp.VList(), list, list_ops)
    if with_manager:
        # the same list / queue sequences against REAL manager proxies (one manager, fresh objects per sequence)
        with multiprocessing.Manager() as m:
            compare("manager.list", ["append", "extendN", "len", "get0", "set1", "clear", "iter"], 2,
                    lambda: vmp.VList(), m.list, list_ops)
            compare("manager.Queue(1)", ["put", "get", "qsize", "empty", "full"], 3,
                    lambda: vmp.VQueue(1), lambda: m.Queue(1), queue_ops)
    # processes: exit codes of a normal and a raising run(), join, fork-copy isolation
    res_v = {}

    def drv(s):
        class P(vmp.Process):
            def __init__(self, bad):
                super().__init__()
                self.bad = bad
                self.x = 0

            def run(self):
                self.x = 5
                if self.bad:
                    raise ValueError("x")
        a, b = P(False), P(True)
        res_v["before"] = (a.exitcode, b.exitcode)
        a.start()
        b.start()
        a.join()
        b.join()
        res_v["after"] = (a.exitcode, b.exitcode, a.x, b.x)
    r = Scheduler().run(drv)

    class RP(multiprocessing.get_context("fork").Process):
        def __init__(self, bad):
            super().__init__()
            self.bad = bad
            self.x = 0

        def run(self):
            self.x = 5
            if self.bad:
                import os
                import sys
                sys.stderr = open(os.devnull, "w")
                raise ValueError("x")
    a, b = RP(False), RP(True)
    before = (a.exitcode, b.exitcode)
    a.start()
    b.start()
    a.join()
    b.join()
    res_r = {"before": before, "after": (a.exitcode, b.exitcode, a.x, b.x)}
    n_seq[0] += 1
    if res_v != res_r:
        mismatches.append(("Process", "start/join/exitcode", res_v, res_r))
    report.part("virtual-layer-conformance", states=n_seq[0], transitions=n_seq[0], evaluations=n_seq[0],
                traces_validated_against_impl=0, exhaustive=True, depth=depth, mismatches=len(mismatches),
                what="operation sequences run on mc/vmp.py objects and on the real queue.Queue / threading / "
                     "multiprocessing / manager proxies, observation sequences compared")
    for m in mismatches[:5]:
        report.harness_error("virtual layer differs from the real primitive: %r" % (m,))
    return mismatches
