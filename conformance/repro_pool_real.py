#!/venv/bin/python
"""Reproductions of the pool findings on the REAL library (real processes, real manager).

usage: repro_pool_real.py <repo dir> <case>     case in F1 F2 F4 F5
Prints RESULT <case> <ok|WRONG|HANG> ...; a hang is caught by faulthandler's watchdog (exit code 1 and a
stack dump).  Always run in its own session with output to a file (see tools/run_repro.sh)."""
import faulthandler
import math
import os
import sys
import threading
import time

repo, case = sys.argv[1], sys.argv[2]
sys.path.insert(0, repo)
from windpyutils.parallel.own_proc_pools import FunctorPool, FactoryFunctorPool, FunctorWorker, FunctorWorkerFactory  # noqa


class W(FunctorWorker):
    def __init__(self, quota=math.inf, slow_retire=0.0):
        super().__init__(quota)
        self.slow_retire = slow_retire

    def __call__(self, x):
        return 2 * x + 1


class Fac(FunctorWorkerFactory):
    def __init__(self, quota):
        self.quota = quota

    def create(self):
        return W(self.quota)


def main():
    faulthandler.dump_traceback_later(20, exit=True)
    if case == "F1":
        # the consumer evaluates its loop condition before the feeder thread has run its first statement:
        # forced by delaying the feeder's first attribute write
        class SlowPool(FunctorPool):
            @property
            def _sending_work(self):
                return self.__dict__.get("_sw", False)

            @_sending_work.setter
            def _sending_work(self, v):
                if v and threading.current_thread() is not threading.main_thread():
                    time.sleep(0.3)
                self.__dict__["_sw"] = v
        with SlowPool([W()]) as pool:
            a = list(pool.imap([1, 2, 3]))
            b = list(pool.imap([10, 20]))
        ok = a == [3, 5, 7] and b == [21, 41]
        print("RESULT F1", "ok" if ok else "WRONG", a, b, flush=True)
    elif case == "F2":
        # the input signals exhaustion late: the consumer has drained the last result and re-entered the
        # blocking get() while _sending_work was still True
        def late_end():
            yield 1
            yield 2
            time.sleep(1.0)
        with FunctorPool([W()]) as pool:
            a = list(pool.imap(late_end()))
        print("RESULT F2", "ok" if a == [3, 5] else "WRONG", a, flush=True)
    elif case == "F4":
        # quota 1, one worker, two consecutive calls: the replace thread of call 1 leaves through stop_event
        # without consuming its None token; call 2's replace thread reads the stale token and exits at once
        # (forced here by a factory that needs 0.5 s to build a replacement: the call ends meanwhile)
        class SlowFac(Fac):
            n = 0

            def create(self):
                SlowFac.n += 1
                if SlowFac.n > 2:
                    time.sleep(0.5)
                return W(self.quota)
        with FactoryFunctorPool(1, SlowFac(1)) as pool:
            a = []
            for x in pool.imap([1, 2]):
                a.append(x)
                if len(a) == 2:
                    time.sleep(0.1)
            print("call 1", a, flush=True)
            b = list(pool.imap([10, 20, 30]))
        print("RESULT F4", "ok" if (a, b) == ([3, 5], [21, 41, 61]) else "WRONG", a, b, flush=True)
    elif case == "F5":
        # both workers retire on their last chunk but are late with their retirement notice; the work queue
        # (size 1) cannot take the two stop tokens of __exit__
        class LateW(W):
            def run(self):
                rq = self.replace_queue

                class LateQ:
                    def put(s, x):
                        time.sleep(1.0)
                        rq.put(x)
                self.replace_queue = LateQ()
                super().run()

        class LateFac(Fac):
            def create(self):
                return LateW(self.quota)
        with FactoryFunctorPool(2, LateFac(1), work_queue_maxsize=1) as pool:
            a = sorted(pool.imap_unordered([1, 2]))
            print("call done", a, flush=True)
        print("RESULT F5", "ok" if a == [3, 5] else "WRONG", a, flush=True)
    faulthandler.cancel_dump_traceback_later()


if __name__ == "__main__":
    main()
