#!/venv/bin/python
"""Real-process reproductions of the TextFileStorage findings: repro_storage_real.py <repo> <F17|F18|F19>"""
import faulthandler
import multiprocessing
import os
import shutil
import sys
import tempfile
import time

repo, case = sys.argv[1], sys.argv[2]
sys.path.insert(0, repo)
from windpyutils.parallel.storage import TextFileStorage  # noqa

faulthandler.dump_traceback_later(20, exit=True)
d = tempfile.mkdtemp(dir="/dev/shm")
try:
    st = TextFileStorage(d)
    if case == "F17":
        class SlowFile:
            def __init__(self, f):
                self.f = f

            def write(self, s):
                time.sleep(0.5)
                return self.f.write(s)

            def __getattr__(self, n):
                return getattr(self.f, n)

        def writer(st):
            st.open()
            st._file = SlowFile(st._file)       # the line reaches the file 0.5 s after print() was called
            st[0] = "hello"
            st.close()
        p = multiprocessing.get_context("fork").Process(target=writer, args=(st,))
        p.start()
        time.sleep(0.25)
        st.reader_only = True
        with st:
            try:
                early = st[0]
            except IndexError:
                early = IndexError
            p.join()
            late = st[0]
        ok = early in (IndexError, "hello") and late == "hello"
        print("RESULT F17", "ok" if ok else "WRONG", repr(early), repr(late))
    elif case == "F18":
        with st:
            st[2] = "two"
            st[0] = "zero"
        st.reader_only = True
        with st:
            got = list(st)
        print("RESULT F18", "ok" if got == ["zero", "two"] else "WRONG", got)
    elif case == "F19":
        with st:
            st[0] = "a"
        st.flush()
        try:
            with st:
                st[0] = "b"
            st.reader_only = True
            with st:
                got = st[0]
        except Exception as e:   # noqa
            got = type(e).__name__
        print("RESULT F19", "ok" if got == "b" else "WRONG", got)
finally:
    shutil.rmtree(d, ignore_errors=True)
