"""F22, real processes: the parent stores and closes, then forks two writers that take strict turns.
On the unrepaired tree both inherit _process_identifier == 0 and re-open storage_0 in "a" mode on separate file
descriptions: tell() of one does not see the appends of the other, the recorded offsets are wrong.
Usage: PYTHONPATH=<repo> python conformance/repro_storage_fork_writers.py   (prints EQUAL or BASELINE VIOLATION)
Written by the sixth-wave mutation author of C14 as an observation on the unchanged tree."""
import multiprocessing, shutil, tempfile, faulthandler
from windpyutils.parallel.storage import TextFileStorage
faulthandler.dump_traceback_later(60, exit=True)

def writer(storage, ids, my_turn, other_turn):
    storage.open()
    for i in ids:
        my_turn.acquire()
        storage[i] = f"text-{i}-" + "x" * i
        other_turn.release()
    storage.close()

d = tempfile.mkdtemp(prefix="c14_base_")
s = TextFileStorage(d)
try:
    with s:
        s[0] = "text-0-"
    ctx = multiprocessing.get_context("fork")
    a, b = ctx.Semaphore(1), ctx.Semaphore(0)
    p1 = ctx.Process(target=writer, args=(s, [1, 3, 5], a, b))
    p2 = ctx.Process(target=writer, args=(s, [2, 4, 6], b, a))
    p1.start(); p2.start(); p1.join(30); p2.join(30)
    s.reader_only = True
    with s:
        got = [s[i] for i in range(7)]
    exp = [f"text-{i}-" + "x" * i for i in range(7)]
    print("got", got); print("exp", exp); print("EQUAL" if got == exp else "BASELINE VIOLATION")
finally:
    s._manager.shutdown(); shutil.rmtree(d, ignore_errors=True)
