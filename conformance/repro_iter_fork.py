#!/venv/bin/python
"""repro_iter_fork.py <repo>: an iteration over an opened line file started before fork() and continued in the child"""
import os, sys, tempfile
sys.path.insert(0, sys.argv[1])
from windpyutils.files import RandomLineAccessFile, MemoryMappedRandomLineAccessFile
p = os.path.join(tempfile.mkdtemp(dir="/dev/shm"), "f.txt")
open(p, "w").write("".join("l%d\n" % i for i in range(5)))
bad = 0
for cls in (RandomLineAccessFile, MemoryMappedRandomLineAccessFile):
    with cls(p) as f:
        it = iter(f)
        first = [next(it), next(it)]
        r, w = os.pipe()
        if os.fork() == 0:
            os.write(w, next(it).encode())
            os._exit(0)
        os.wait()
        got = os.read(r, 100).decode()
        print(cls.__name__, first, "child continues with", repr(got), "(expected 'l2')")
        bad += got != "l2"
print("RESULT", "ok" if not bad else "WRONG")
