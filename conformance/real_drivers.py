#!/venv/bin/python
"""Free runs of the pool drivers on the REAL library (real processes, real manager): every observed
outcome must be one the exploration produced (for a correct tree: exactly the expected outputs).
usage: real_drivers.py <repo> <out.json>   -- run in its own session with a timeout (see checks/c01.py)"""
import faulthandler
import json
import math
import sys

repo, outp = sys.argv[1], sys.argv[2]
sys.path.insert(0, repo)
faulthandler.dump_traceback_later(100, exit=True)
from windpyutils.parallel.own_proc_pools import FunctorPool, FactoryFunctorPool, FunctorWorker, FunctorWorkerFactory  # noqa


class W(FunctorWorker):
    def __call__(self, x):
        return 2 * x + 1


class Fac(FunctorWorkerFactory):
    def __init__(self, q):
        self.q = q

    def create(self):
        return W(self.q)


def lazy(data):
    for x in data:
        yield x


CASES = [
    ("P1", "functor", 1, None, 1.0, None, [("imap", "list", 2, 1)]),
    ("P2", "functor", 2, None, 1.0, None, [("imap", "list", 3, 1)]),
    ("P3", "functor", 2, None, None, 1, [("imap", "lazy", 3, 1)]),
    ("P4", "functor", 1, None, 1.0, None, [("imap", "list", 1, 1), ("imap", "list", 0, 1), ("imap_unordered", "list", 2, 2)]),
    ("P5", "factory", 1, 1, 1.0, None, [("imap", "list", 2, 1), ("imap", "list", 2, 1)]),
    ("P6", "factory", 2, 1, 1, None, [("imap_unordered", "list", 2, 1)]),
    ("P7", "functor", 2, None, 1, 2, [("imap", "list", 4, 2)]),
]
res = {}
for name, kind, w, quota, wq, rq, calls in CASES:
    if kind == "functor":
        pool = FunctorPool([W() for _ in range(w)], work_queue_maxsize=wq, results_queue_maxsize=rq)
    else:
        pool = FactoryFunctorPool(w, Fac(quota), work_queue_maxsize=wq, results_queue_maxsize=rq)
    outs = []
    with pool:
        for k, (mode, ikind, n, cs) in enumerate(calls):
            data = [100 * (k + 1) + j for j in range(n)]
            inp = lazy(data) if ikind == "lazy" else data
            gen = pool.imap(inp, cs) if mode == "imap" else pool.imap_unordered(inp, cs)
            outs.append({"mode": mode, "data": data, "got": list(gen)})
    res[name] = outs
json.dump(res, open(outp, "w"))
